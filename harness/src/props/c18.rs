//! C18 — node k-mer iteration obeys the iterator contract.

use std::collections::BTreeSet;

use boomphf::Mphf;
use debruijn::graph::{BaseGraph, DebruijnGraph};
use debruijn::{Exts, Kmer};
use proptest::prelude::*;
use serde::{Deserialize, Serialize};
use serde_json::json;

use crate::ktypes::kseq;
use crate::pipeline::{build_base, Entry3, SumPay};
use crate::props::gcase::{gcase, GCase};
use crate::runner::{CheckResult, Env, Job, Outcome, PropJob};
use crate::util::{canon, splitmix, to_ascii, Seq};

pub const RULE: &str = "hand-packed graphs: case = 2..5 nodes of length K..K+40 with distinct pseudo-random content added directly to a BaseGraph (so a window running into a neighbour is recognisable), a node index (first / middle / last node all occur) and a call history of next() and nth(n) with n drawn from {0..4} ∪ {5..remaining+3} ∪ {exactly remaining, remaining-1, remaining+1} ∪ {huge, usize::MAX}; model = the node's k-mer list and a cursor: nth(n) returns list[cur+n] and advances to cur+n+1, or None when past the end, after which every later call returns None; len() of a fresh iterator = n-K+1; no panic. The node-level iterators (`for node in &graph`, iter_nodes()) are driven by the same histories and by skip/step_by against the id list 0..len with a cursor, and their size_hint must bracket the number of nodes left after every call. Pipeline graphs: iterating `&graph` visits every graph k-mer exactly once (compared with the node sequences and with the table), and Mphf::from_chunked_iterator / _parallel over `&graph` gives every k-mer a distinct slot < n. Non-trivial = the history contains a skip > 4 and a call that reaches or passes the end.";
pub const TECHNIQUE: &str = "seeded proptest over next()/nth(n) call histories against an index-into-list model; MPHF slot-distinctness check";

#[derive(Debug, Clone, Serialize, Deserialize)]
pub enum Call {
    Next,
    /// small skip 0..=4
    Small(u8),
    /// skip relative to the remaining count: remaining + delta (delta in -3..=3), only used when >= 5 (else clamped)
    Rel(i8),
    /// skip as a fraction of remaining (5..)
    Frac(u16),
    Huge(u64),
    Max,
}

#[derive(Debug, Clone, Serialize, Deserialize)]
pub struct Case {
    pub lens: Vec<u8>,
    pub seed: u64,
    pub node: u16,
    pub calls: Vec<Call>,
}

fn case_strategy() -> BoxedStrategy<Case> {
    let call = prop_oneof![
        4 => Just(Call::Next),
        3 => (0u8..5).prop_map(Call::Small),
        4 => (-3i8..4).prop_map(Call::Rel),
        3 => any::<u16>().prop_map(Call::Frac),
        1 => (1u64 << 20..1u64 << 62).prop_map(Call::Huge),
        1 => Just(Call::Max),
    ];
    (
        proptest::collection::vec(prop_oneof![2 => 0u8..41, 1 => Just(0u8), 1 => 4u8..12], 2..6),
        any::<u64>(),
        prop_oneof![1 => Just(0u16), 1 => Just(65535u16), 2 => any::<u16>()],
        proptest::collection::vec(call, 1..14),
    )
        .prop_map(|(lens, seed, node, calls)| Case { lens, seed, node, calls })
        .boxed()
}

/// Node-level iteration under a call history: `it` must behave as the list of node ids `0..total` with a cursor.
/// `plan(remaining)` gives the next call: None = next(), Some(n) = nth(n).  After every call the reported
/// size_hint must bracket the number of nodes really left (Iterator's documented contract).
fn drive_nodes<I: Iterator>(
    what: &str,
    mut it: I,
    id: impl Fn(&I::Item) -> usize,
    total: usize,
    ncalls: usize,
    mut plan: impl FnMut(usize, usize) -> Option<usize>,
) -> Result<(), String> {
    let mut cur = 0usize;
    let hint_ok = |it: &I, cur: usize, when: &str| -> Result<(), String> {
        let left = total - cur;
        let (lo, hi) = it.size_hint();
        if lo > left || hi.map_or(false, |h| h < left) {
            return Err(format!("{}: size_hint {:?} {} but {} of {} nodes are left", what, (lo, hi), when, left, total));
        }
        Ok(())
    };
    hint_ok(&it, 0, "on a fresh iterator")?;
    for ci in 0..ncalls {
        let call = plan(ci, total - cur);
        let (got, n, desc) = match call {
            None => (it.next(), 0usize, "next()".to_string()),
            Some(n) => (it.nth(n), n, format!("nth({})", n)),
        };
        let want = if cur < total && n < total - cur { Some(cur + n) } else { None };
        let got_id = got.as_ref().map(|x| id(x));
        if got_id != want {
            return Err(format!(
                "{}: call {} {} with {} of {} nodes consumed returned node {:?}, expected {:?}",
                what, ci, desc, cur, total, got_id, want
            ));
        }
        cur = match want {
            Some(w) => w + 1,
            None => total,
        };
        hint_ok(&it, cur, &format!("after call {} {}", ci, desc))?;
    }
    let mut rest = Vec::new();
    for x in it.take(total + 8) {
        rest.push(id(&x));
    }
    if rest != (cur..total).collect::<Vec<_>>() {
        return Err(format!("{}: draining after the call history yields nodes {:?}.., expected {}..{}", what, &rest[..rest.len().min(6)], cur, total));
    }
    Ok(())
}

/// Both node-level iterators of a graph (`&graph` and `iter_nodes()`) under pseudo-random next()/nth(n) histories
/// and under the std adaptors built on them (skip, step_by).
pub fn check_node_iters<K: Kmer, D: std::fmt::Debug>(g: &DebruijnGraph<K, D>, seed: u64, rounds: usize) -> Result<(), String> {
    let total = g.len();
    for round in 0..rounds {
        for which in 0..2 {
            let mut st = seed ^ ((round as u64) << 8) ^ 0x6e6f6465;
            let ncalls = 1 + (splitmix(&mut st) % 8) as usize;
            let plan = move |_ci: usize, remaining: usize| -> Option<usize> {
                let r = splitmix(&mut st);
                match r % 8 {
                    0 | 1 | 2 => None,
                    3 | 4 => Some(((r >> 8) % 4) as usize),
                    5 => Some(((r >> 8) as usize) % (remaining + 2)),
                    6 => Some(remaining.saturating_sub(1)),
                    _ => Some(if (r >> 8) & 1 == 0 { remaining } else { usize::MAX }),
                }
            };
            if which == 0 {
                drive_nodes("for node in &graph", g.into_iter(), |x| x.node_id, total, ncalls, plan)?;
            } else {
                drive_nodes("graph.iter_nodes()", g.iter_nodes(), |x| x.node_id, total, ncalls, plan)?;
            }
        }
        let mut st = seed ^ ((round as u64) << 16) ^ 0x61646170;
        let a = (splitmix(&mut st) as usize) % (total + 2);
        let step = 1 + (splitmix(&mut st) as usize) % 4;
        let want: Vec<usize> = (0..total).skip(a).step_by(step).collect();
        let got1: Vec<usize> = g.into_iter().skip(a).step_by(step).take(total + 8).map(|x| x.node_id).collect();
        let got2: Vec<usize> = g.iter_nodes().skip(a).step_by(step).take(total + 8).map(|x| x.node_id).collect();
        if got1 != want || got2 != want {
            return Err(format!(
                "node iteration with skip({}).step_by({}) over {} nodes visits {:?}.. / {:?}.., expected {:?}..",
                a,
                step,
                total,
                &got1[..got1.len().min(6)],
                &got2[..got2.len().min(6)],
                &want[..want.len().min(6)]
            ));
        }
    }
    Ok(())
}

pub fn check<K: Kmer + Send + Sync>(c: &Case) -> CheckResult {
    let k = K::k();
    let mut st = c.seed;
    let mut g: BaseGraph<K, u32> = BaseGraph::new(false);
    let mut seqs: Vec<Seq> = Vec::new();
    // node ends must be distinct k-mers (a graph never holds the same terminal k-mer twice on one side);
    // content is re-drawn (as a pure function of the seed) until that holds
    let mut firsts: BTreeSet<Seq> = BTreeSet::new();
    let mut lasts: BTreeSet<Seq> = BTreeSet::new();
    for (i, extra) in c.lens.iter().enumerate() {
        let n = k + *extra as usize;
        let mut chosen: Option<Seq> = None;
        for _attempt in 0..400 {
            let mut r = 0u64;
            let s: Seq = (0..n)
                .map(|j| {
                    if j % 32 == 0 {
                        r = splitmix(&mut st);
                    }
                    ((r >> (2 * (j % 32))) & 3) as u8
                })
                .collect();
            if !firsts.contains(&s[..k]) && !lasts.contains(&s[n - k..]) {
                chosen = Some(s);
                break;
            }
        }
        if let Some(s) = chosen {
            firsts.insert(s[..k].to_vec());
            lasts.insert(s[s.len() - k..].to_vec());
            g.add(s.iter(), Exts::empty(), i as u32);
            seqs.push(s);
        }
    }
    if seqs.is_empty() {
        return Ok(Outcome::new(false));
    }
    let graph: DebruijnGraph<K, u32> = g.finish_serial();
    let ni = crate::util::idx(c.node, seqs.len());
    let list: Vec<Seq> = (0..=seqs[ni].len() - k).map(|i| seqs[ni][i..i + k].to_vec()).collect();
    let total = list.len();
    // fresh iterator: exact size up front
    {
        let it = graph.get_node_kmer(ni).into_iter();
        if it.len() != total || it.size_hint() != (total, Some(total)) {
            return Err(format!("fresh iterator reports len {} / size_hint {:?}, node has {} k-mers", it.len(), it.size_hint(), total));
        }
        // bounded: an endless stream must be reported, not exhaust memory
        let all: Vec<Seq> = graph.get_node_kmer(ni).into_iter().take(total + 8).map(|x| kseq(&x)).collect();
        if all.len() > total {
            return Err(format!("plain iteration of node {} does not stop after its {} k-mers (endless stream?)", ni, total));
        }
        if all != list {
            return Err(format!("plain iteration of node {} yields {} k-mers, expected the node's {} k-mers in order", ni, all.len(), total));
        }
    }
    // the node-level iterators under the same call history (positions count nodes instead of k-mers)
    {
        let calls = &c.calls;
        let plan = |ci: usize, remaining: usize| -> Option<usize> {
            match &calls[ci] {
                Call::Next => None,
                Call::Small(s) => Some(*s as usize),
                Call::Rel(d) => Some(((remaining as i64 + *d as i64).max(0)) as usize),
                Call::Frac(f) => Some(crate::util::idx(*f, remaining + 4)),
                Call::Huge(h) => Some(*h as usize),
                Call::Max => Some(usize::MAX),
            }
        };
        drive_nodes("for node in &graph", (&graph).into_iter(), |x| x.node_id, graph.len(), calls.len(), plan)?;
        drive_nodes("graph.iter_nodes()", graph.iter_nodes(), |x| x.node_id, graph.len(), calls.len(), plan)?;
        check_node_iters(&graph, c.seed, 2)?;
    }
    let mut it = graph.get_node_kmer(ni).into_iter();
    let mut cur = 0usize; // model cursor
    let mut big_skip = false;
    let mut reached_end = false;
    for (ci, call) in c.calls.iter().enumerate() {
        let remaining = total - cur.min(total);
        let (got, n_desc): (Option<K>, String) = match call {
            Call::Next => (it.next(), "next()".into()),
            other => {
                let n: usize = match other {
                    Call::Small(s) => *s as usize,
                    Call::Rel(d) => ((remaining as i64 + *d as i64).max(0)) as usize,
                    Call::Frac(f) => 5 + crate::util::idx(*f, remaining + 4),
                    Call::Huge(h) => *h as usize,
                    Call::Max => usize::MAX,
                    Call::Next => 0,
                };
                if n > 4 {
                    big_skip = true;
                }
                (it.nth(n), format!("nth({})", n))
            }
        };
        let n: usize = match call {
            Call::Next => 0,
            Call::Small(s) => *s as usize,
            Call::Rel(d) => ((remaining as i64 + *d as i64).max(0)) as usize,
            Call::Frac(f) => 5 + crate::util::idx(*f, remaining + 4),
            Call::Huge(h) => *h as usize,
            Call::Max => usize::MAX,
        };
        let want: Option<&Seq> = if cur < total && n < total - cur { Some(&list[cur + n]) } else { None };
        match (&got, want) {
            (None, None) => {
                reached_end = true;
                cur = total;
            }
            (Some(g), Some(w)) => {
                if kseq(g) != *w {
                    return Err(format!(
                        "call {} {} at position {} of {} returned {} instead of {}",
                        ci,
                        n_desc,
                        cur,
                        total,
                        to_ascii(&kseq(g)),
                        to_ascii(w)
                    ));
                }
                cur = cur + n + 1;
            }
            (Some(g), None) => {
                return Err(format!(
                    "call {} {} at position {} of {} (node {} of {}) returned {} although the iteration is past the node's last k-mer",
                    ci,
                    n_desc,
                    cur,
                    total,
                    ni,
                    seqs.len(),
                    to_ascii(&kseq(g))
                ));
            }
            (None, Some(w)) => {
                return Err(format!(
                    "call {} {} at position {} of {} returned None, expected {}",
                    ci,
                    n_desc,
                    cur,
                    total,
                    to_ascii(w)
                ));
            }
        }
    }
    // once exhausted, it stays exhausted
    if cur >= total {
        for _ in 0..3 {
            if let Some(x) = it.next() {
                return Err(format!("next() after the end returned {}", to_ascii(&kseq(&x))));
            }
            if let Some(x) = it.nth(0) {
                return Err(format!("nth(0) after the end returned {}", to_ascii(&kseq(&x))));
            }
            if let Some(x) = it.nth(6) {
                return Err(format!("nth(6) after the end returned {}", to_ascii(&kseq(&x))));
            }
        }
    } else {
        // drain and compare the tail
        let rest: Vec<Seq> = it.take(total + 8).map(|x| kseq(&x)).collect();
        if rest[..] != list[cur..] {
            return Err(format!("draining after the call history yields {} k-mers, expected {}", rest.len(), total - cur));
        }
    }
    Ok(Outcome::new(big_skip && reached_end)
        .label(big_skip, "skip>4")
        .label(reached_end, "reached_or_passed_end")
        .label(ni == seqs.len() - 1, "last_node")
        .label(ni == 0, "first_node")
        .label(total == 1, "single_kmer_node")
        .label(c.calls.iter().any(|x| matches!(x, Call::Max | Call::Huge(_))), "huge_skip"))
}

fn check_graph<K: Kmer + Send + Sync>(c: &GCase) -> CheckResult {
    let k = K::k();
    let reads = c.reads(k);
    let (base, seen) = build_base::<K, SumPay>(&reads, c.stranded, c.min_count(), Entry3::Hash)?;
    let g = base.finish();
    // iterate all nodes through IntoIterator for &graph
    let mut all: Vec<Seq> = Vec::new();
    let mut per_node = 0usize;
    for nk in &g {
        let id = nk.node_id;
        let want: Vec<Seq> = {
            let s = g.get_node(id).sequence().bytes();
            (0..=s.len() - k).map(|i| s[i..i + k].to_vec()).collect()
        };
        let it = nk.into_iter();
        if it.len() != want.len() {
            return Err(format!("node {}: iterator len {} but the node has {} k-mers", id, it.len(), want.len()));
        }
        let got: Vec<Seq> = it.take(want.len() + 8).map(|x| kseq(&x)).collect();
        if got != want {
            return Err(format!("node {}: iteration differs from the node's k-mers", id));
        }
        all.extend(got);
        per_node += 1;
    }
    if per_node != g.len() {
        return Err(format!("iterating &graph visits {} nodes of {}", per_node, g.len()));
    }
    check_node_iters(&g, c.aux, 3)?;
    let canon_all: BTreeSet<Seq> = all.iter().map(|s| canon(s, c.stranded)).collect();
    if canon_all.len() != all.len() || all.len() != seen.len() || !canon_all.iter().all(|s| seen.contains_key(s)) {
        return Err(format!(
            "iterating all nodes yields {} k-mers ({} distinct), the graph holds {}",
            all.len(),
            canon_all.len(),
            seen.len()
        ));
    }
    let n = all.len() as u64;
    let mut mphf_checked = false;
    if n > 0 {
        for parallel in [false, true] {
            let mphf: Mphf<K> = if parallel {
                Mphf::from_chunked_iterator_parallel(1.7, &g, None, n, 2)
            } else {
                Mphf::from_chunked_iterator(1.7, &g, n)
            };
            let mut slots = vec![false; n as usize];
            for s in &all {
                let h = mphf
                    .try_hash(&K::from_bytes(s))
                    .ok_or_else(|| format!("perfect hash built from &graph does not know graph k-mer {}", to_ascii(s)))?;
                if h >= n {
                    return Err(format!("slot {} out of range {}", h, n));
                }
                if slots[h as usize] {
                    return Err(format!(
                        "two graph k-mers share slot {} in the perfect hash built from node iteration (parallel = {})",
                        h, parallel
                    ));
                }
                slots[h as usize] = true;
            }
        }
        mphf_checked = true;
    }
    Ok(Outcome::new(g.len() >= 2 && n >= 8)
        .label(mphf_checked, "mphf_checked")
        .label(n >= 64, "kmers>=64")
        .label(g.len() >= 5, "nodes>=5"))
}

fn build<K: Kmer + Send + Sync + 'static>(name: &'static str, _env: &Env) -> Vec<Box<dyn Job>> {
    let k = K::k();
    vec![
        PropJob::new(format!("calls/{}", name), 1500, 50000, |_e: &Env| case_strategy(), |c: &Case| check::<K>(c))
            .with_render(|c: &Case| json!({"lens": c.lens, "calls": format!("{:?}", c.calls)}))
            .boxed(),
        PropJob::new(
            format!("graph_iteration/{}", name),
            100,
            3000,
            move |e: &Env| gcase(k, e, false),
            |c: &GCase| check_graph::<K>(c),
        )
        .with_render(move |c: &GCase| json!({"reads": c.rs.render(k)}))
        .boxed(),
    ]
}

#[cfg(not(fuzzing))]
pub fn jobs(env: &Env) -> Vec<Box<dyn Job>> {
    let mut out: Vec<Box<dyn Job>> = Vec::new();
    crate::kmers_ge4!(build, out, env);
    // K < 4 types cannot go through filter_kmers, but hand-packed graphs work for them too
    fn small<K: Kmer + Send + Sync + 'static>(name: &'static str, _env: &Env) -> Vec<Box<dyn Job>> {
        vec![PropJob::new(format!("calls/{}", name), 1500, 50000, |_e: &Env| case_strategy(), |c: &Case| check::<K>(c)).boxed()]
    }
    crate::kmers_list!(small, out, env; Kmer2, Kmer3);
    out
}
