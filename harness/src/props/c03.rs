//! C03 — extensions and edges denote exactly the real adjacencies, symmetrically.

use std::collections::{BTreeMap, BTreeSet};

use bit_set::BitSet;
use debruijn::filter::{remove_censored_exts, remove_censored_exts_sharded};
use debruijn::graph::DebruijnGraph;
use debruijn::{Dir, Exts, Kmer};
use proptest::prelude::*;
use serde::{Deserialize, Serialize};
use serde_json::json;

use crate::gmodel::{d2u, table_w, u2d, GModel, Link};
use crate::ktypes::kseq;
use crate::model::{self, LEFT, RIGHT};
use crate::pipeline::{build_base, ptable, PTable, PayKind, SumPay};
use crate::props::gcase::{gcase, GCase};
use crate::runner::{guarded, CheckResult, EnumJob, Env, Job, JobReport, Outcome, PropJob};
use crate::util::{canon, is_pal, rc, splitmix, to_ascii, Seq};

pub const RULE: &str = "case = finished graph built from a generated read set (all K types, stranded/unstranded, thresholds, three entry points) plus a 64-bit value that drives probes; checks: every node x side x base through find_link/edges against the string-level acceptable-answer set (landing node, arrival side, flip), edge lists = resolved extension bits in base order, symmetry (palindromic single-k-mer nodes: either side), W_total(graph) = (K+1)-mers between retained k-mers of the reads/table, node extension bytes = table extensions of the terminal k-mers, find_link for terminal k-mers, their reverse complements, 1-mismatch neighbours and random k-mers, random walks + max_path + max_path_beam spelled by sequence_of_path against model spelling with K-1 overlaps and no repeated node in max_path, get_valid_exts/fix_exts under random node bitsets. Fixed extra jobs: a k-mer observed more than 65 535 times whose last observations bring a new adjacency (both shipped summarizers are run and must agree on keys and extensions in every graph pipeline). Separate jobs: remove_censored_exts and remove_censored_exts_sharded under random censor subsets against the model filter, bit for bit, plus the shipped two-call flow filter_kmers(report_all_kmers = true) -> remove_censored_exts_sharded with the returned k-mer list passed on unchanged. Non-trivial = graph has >= 1 resolvable edge (pruning: >= 1 extension removed and >= 1 kept).";
pub const TECHNIQUE: &str = "seeded proptest over graphs x probes against a string-level adjacency model (acceptable-answer sets, (K+1)-mer set equality, walk spelling)";

fn link_of(l: (usize, Dir, bool)) -> Link {
    (l.0, d2u(l.1), l.2)
}

#[derive(Default)]
pub struct EdgeStats {
    pub resolvable: usize,
    pub dangling: usize,
    pub flips: usize,
    pub self_links: usize,
    pub pal_single_nodes: usize,
}

/// (i) + (ii) + (iii): edges, W_total pieces, symmetry.  Returns the set of edge (K+1)-mers.
pub fn check_edges<K: Kmer, P: PayKind>(
    g: &DebruijnGraph<K, P>,
    gm: &GModel<P>,
) -> Result<(BTreeSet<Seq>, EdgeStats), String> {
    let k = gm.k;
    let mut st = EdgeStats::default();
    let mut edge_w = BTreeSet::new();
    if g.len() != gm.nodes.len() {
        return Err("graph len() disagrees with node count".into());
    }
    for u in 0..gm.nodes.len() {
        let node = g.get_node(u);
        if node.len() != gm.nodes[u].seq.len() || node.exts().val != gm.nodes[u].exts {
            return Err(format!("node {} accessors disagree with base arrays", u));
        }
        if gm.is_pal_single(u) {
            st.pal_single_nodes += 1;
        }
        for dir in [LEFT, RIGHT] {
            let term = gm.term(u, dir).to_vec();
            let real_edges: Vec<Link> = node.edges(u2d(dir)).into_iter().map(link_of).collect();
            let via_named: Vec<Link> = if dir == LEFT {
                node.l_edges().into_iter().map(link_of).collect()
            } else {
                node.r_edges().into_iter().map(link_of).collect()
            };
            {
                // the order in which edges are listed is not part of the property: compare as multisets
                let (mut a, mut b) = (real_edges.clone(), via_named.clone());
                a.sort();
                b.sort();
                if a != b {
                    return Err(format!("node {}: edges({}) and l_edges/r_edges list different edges", u, dir));
                }
            }
            let mut expected_list: Vec<Link> = Vec::new();
            for b in model::ext_bases(gm.nodes[u].exts, dir) {
                let ext_kmer = model::extend(&term, dir, b);
                let acc = gm.acceptable(&ext_kmer, dir);
                let real = g.find_link(K::from_bytes(&ext_kmer), u2d(dir)).map(link_of);
                match real {
                    None => {
                        if !acc.is_empty() {
                            return Err(format!(
                                "node {} side {} base {}: find_link({}) = None but node {} is a valid landing",
                                u,
                                dir,
                                b,
                                to_ascii(&ext_kmer),
                                acc[0].0
                            ));
                        }
                        st.dangling += 1;
                    }
                    Some(l) => {
                        if !acc.contains(&l) {
                            return Err(format!(
                                "node {} side {} base {}: find_link({}) = (node {}, side {}, flip {}) is not a K-1 overlap landing (valid: {:?})",
                                u, dir, b, to_ascii(&ext_kmer), l.0, l.1, l.2, acc
                            ));
                        }
                        if gm.stranded && l.2 {
                            return Err("flip reported in a stranded graph".into());
                        }
                        // the oriented target really starts/ends with the extended k-mer and the side is the implied one
                        let o = gm.oriented(l.0, if l.2 { RIGHT } else { LEFT });
                        let ok = if dir == RIGHT {
                            o[..k] == ext_kmer[..] && l.1 == if l.2 { RIGHT } else { LEFT }
                        } else {
                            o[o.len() - k..] == ext_kmer[..] && l.1 == if l.2 { LEFT } else { RIGHT }
                        };
                        if !ok {
                            return Err(format!(
                                "node {} side {} base {}: reported landing (node {}, side {}, flip {}) does not overlap by K-1",
                                u, dir, b, l.0, l.1, l.2
                            ));
                        }
                        expected_list.push(l);
                        st.resolvable += 1;
                        if l.2 {
                            st.flips += 1;
                        }
                        if l.0 == u {
                            st.self_links += 1;
                        }
                        edge_w.insert(canon(&model::kp1(&term, dir, b), gm.stranded));
                        // (iii) symmetry
                        let v = l.0;
                        let vnode = g.get_node(v);
                        let sym = if gm.is_pal_single(u) || gm.is_pal_single(v) {
                            let mut all: Vec<Link> = vnode.edges(Dir::Left).into_iter().map(link_of).collect();
                            all.extend(vnode.edges(Dir::Right).into_iter().map(link_of));
                            all.iter().any(|x| x.0 == u)
                        } else {
                            vnode
                                .edges(u2d(l.1))
                                .into_iter()
                                .map(link_of)
                                .any(|x| x.0 == u && x.1 == dir && x.2 == l.2)
                        };
                        if !sym {
                            return Err(format!(
                                "asymmetric adjacency: node {} side {} reaches node {} side {} (flip {}), but node {} does not reach back through that side",
                                u, dir, v, l.1, l.2, v
                            ));
                        }
                    }
                }
            }
            {
                let (mut a, mut b) = (expected_list.clone(), real_edges.clone());
                a.sort();
                b.sort();
                if a != b {
                    return Err(format!(
                        "node {} side {}: edges() = {:?} but resolving the extension bits one by one gives {:?}",
                        u, dir, real_edges, expected_list
                    ));
                }
            }
        }
    }
    Ok((edge_w, st))
}

/// Node extension bytes must be the table's extensions of the terminal k-mers (complemented when the
/// terminal k-mer is spelled as the reverse complement of its table key).
pub fn check_node_exts<P: PayKind>(gm: &GModel<P>, table: &PTable<P>) -> Result<(), String> {
    let k = gm.k;
    for (i, n) in gm.nodes.iter().enumerate() {
        for side in [LEFT, RIGHT] {
            let w = gm.term(i, side);
            let c = canon(w, gm.stranded);
            let te = match table.get(&c) {
                Some(e) => e.0,
                None => return Err(format!("node {} terminal k-mer not in table", i)),
            };
            let spelled_e = if gm.stranded || w == c.as_slice() { te } else { model::ext_rc(te) };
            let got = model::ext_side(n.exts, side);
            let ok = if !gm.stranded && is_pal(w) && n.seq.len() == k {
                // single palindromic k-mer node: sides are indistinguishable
                let cl = model::ext_closure(te);
                (n.exts | model::ext_rc(n.exts)) == cl
            } else if !gm.stranded && is_pal(w) {
                model::ext_side(model::ext_closure(te), side) & got == got
            } else {
                got == model::ext_side(spelled_e, side)
            };
            if !ok {
                return Err(format!(
                    "node {} ({}): extension nibble on side {} is {:#x}, the table records {:#x} for its terminal k-mer {}",
                    i,
                    to_ascii(&n.seq),
                    side,
                    got,
                    model::ext_side(spelled_e, side),
                    to_ascii(w)
                ));
            }
        }
    }
    Ok(())
}

/// (v) find_link probes for present and absent k-mers.
fn check_find_link_probes<K: Kmer, P: PayKind>(g: &DebruijnGraph<K, P>, gm: &GModel<P>, seed: u64) -> Result<usize, String> {
    let k = gm.k;
    let mut probes: Vec<Seq> = Vec::new();
    let mut st = seed;
    for i in 0..gm.nodes.len().min(40) {
        for side in [LEFT, RIGHT] {
            let t = gm.term(i, side).to_vec();
            probes.push(rc(&t));
            // 1-mismatch neighbour
            let mut m = t.clone();
            let p = (splitmix(&mut st) % k as u64) as usize;
            m[p] = (m[p] + 1 + (splitmix(&mut st) % 3) as u8) % 4;
            probes.push(m);
            probes.push(t);
        }
        // an interior k-mer (present in the graph but not a node end)
        let s = &gm.nodes[i].seq;
        if s.len() > k + 1 {
            let off = 1 + (splitmix(&mut st) as usize) % (s.len() - k - 1);
            probes.push(s[off..off + k].to_vec());
        }
    }
    for _ in 0..8 {
        let r = splitmix(&mut st);
        probes.push((0..k).map(|i| ((r >> (2 * (i % 32))) & 3) as u8).collect());
    }
    let mut absent = 0;
    for p in &probes {
        for dir in [LEFT, RIGHT] {
            let acc = gm.acceptable(p, dir);
            let real = g.find_link(K::from_bytes(p), u2d(dir)).map(link_of);
            match real {
                None => {
                    absent += 1;
                    if !acc.is_empty() {
                        return Err(format!("find_link({}, {}) = None, expected one of {:?}", to_ascii(p), dir, acc));
                    }
                }
                Some(l) => {
                    if !acc.contains(&l) {
                        return Err(format!(
                            "find_link({}, {}) = {:?} but no node end matches (valid: {:?})",
                            to_ascii(p),
                            dir,
                            l,
                            acc
                        ));
                    }
                }
            }
        }
    }
    Ok(absent)
}

fn is_reported_edge<K: Kmer, P: PayKind>(
    g: &DebruijnGraph<K, P>,
    gm: &GModel<P>,
    a: (usize, u8),
    b: (usize, u8),
) -> bool {
    let node = g.get_node(a.0);
    if gm.is_pal_single(a.0) || gm.is_pal_single(b.0) {
        let mut all: Vec<Link> = node.edges(Dir::Left).into_iter().map(link_of).collect();
        all.extend(node.edges(Dir::Right).into_iter().map(link_of));
        all.iter().any(|x| x.0 == b.0)
    } else {
        // a was entered through a.1, so it is left through the other side
        node.edges(u2d(1 - a.1))
            .into_iter()
            .map(link_of)
            .any(|x| x.0 == b.0 && x.1 == b.1)
    }
}

fn check_walk<K: Kmer, P: PayKind>(
    what: &str,
    g: &DebruijnGraph<K, P>,
    gm: &GModel<P>,
    path: &[(usize, Dir)],
    no_repeat: bool,
) -> Result<(), String> {
    let upath: Vec<(usize, u8)> = path.iter().map(|(n, d)| (*n, d2u(*d))).collect();
    if no_repeat {
        let set: BTreeSet<usize> = upath.iter().map(|x| x.0).collect();
        if set.len() != upath.len() {
            return Err(format!("{}: a node is repeated in {:?}", what, upath));
        }
    }
    for w in upath.windows(2) {
        if !is_reported_edge(g, gm, w[0], w[1]) {
            return Err(format!(
                "{}: consecutive elements {:?} -> {:?} are not a reported edge (path {:?})",
                what, w[0], w[1], upath
            ));
        }
    }
    let want = gm.spell(&upath).map_err(|e| format!("{}: {}", what, e))?;
    let got = g.sequence_of_path(path.iter()).to_bytes();
    if got != want {
        return Err(format!(
            "{}: sequence_of_path spells {} but the walked nodes spell {} (path {:?})",
            what,
            to_ascii(&got),
            to_ascii(&want),
            upath
        ));
    }
    Ok(())
}

pub fn check<K: Kmer + Send + Sync, P: PayKind>(c: &GCase, score_of: &dyn Fn(&P, u64) -> f32) -> CheckResult {
    let k = K::k();
    let reads = c.reads(k);
    let (base, seen) = build_base::<K, P>(&reads, c.stranded, c.min_count(), c.entry)?;
    let mut g = if c.aux & 1 == 0 { base.finish() } else { base.finish_serial() };
    let gm = GModel::of_graph(&g);

    // (vii) node extension bytes
    check_node_exts(&gm, &seen)?;
    // (i) (iii)
    let (edge_w, st) = check_edges(&g, &gm)?;
    // (ii) W_total
    let mut w_total = gm.internal_w();
    w_total.extend(edge_w.iter().cloned());
    let want_w = table_w(&seen, c.stranded);
    if w_total != want_w {
        let lost: Vec<String> = want_w.difference(&w_total).take(3).map(|s| to_ascii(s)).collect();
        let inv: Vec<String> = w_total.difference(&want_w).take(3).map(|s| to_ascii(s)).collect();
        return Err(format!(
            "adjacency set differs from the table's: lost {:?}, invented {:?}",
            lost, inv
        ));
    }
    if c.entry != crate::pipeline::Entry3::NoExts {
        let retained = |s: &Seq| seen.contains_key(s);
        let from_reads = model::read_kp1s(&reads, k, c.stranded, &retained);
        if from_reads != w_total {
            let lost: Vec<String> = from_reads.difference(&w_total).take(3).map(|s| to_ascii(s)).collect();
            let inv: Vec<String> = w_total.difference(&from_reads).take(3).map(|s| to_ascii(s)).collect();
            return Err(format!(
                "adjacency set differs from the (K+1)-mers of the reads between retained k-mers: lost {:?}, invented {:?}",
                lost, inv
            ));
        }
    }
    // (v)
    let absent = check_find_link_probes(&g, &gm, c.aux)?;

    // (vi) walks
    let mut walked = 0usize;
    if !gm.nodes.is_empty() {
        let mut stt = c.aux ^ 0x5151;
        for _ in 0..4 {
            let start = (splitmix(&mut stt) % gm.nodes.len() as u64) as usize;
            let d0 = if splitmix(&mut stt) & 1 == 0 { Dir::Left } else { Dir::Right };
            let mut path: Vec<(usize, Dir)> = vec![(start, d0)];
            for _ in 0..(splitmix(&mut stt) % 12) {
                let (cur, entered) = *path.last().unwrap();
                let edges = g.get_node(cur).edges(entered.flip());
                if edges.is_empty() {
                    break;
                }
                let e = edges[(splitmix(&mut stt) % edges.len() as u64) as usize];
                path.push((e.0, e.1));
            }
            walked = walked.max(path.len());
            check_walk("random walk", &g, &gm, &path, false)?;
        }
        let s1 = c.aux.rotate_left(17);
        let s2 = c.aux.rotate_left(39);
        let path = g.max_path(|d| score_of(d, s1), |d| score_of(d, s2) > 500.0);
        if path.is_empty() {
            return Err("max_path returned an empty path on a non-empty graph".into());
        }
        walked = walked.max(path.len());
        check_walk("max_path", &g, &gm, &path, true)?;
        // all-solid and none-solid variants
        let path = g.max_path(|d| score_of(d, s1), |_| true);
        check_walk("max_path(all solid)", &g, &gm, &path, true)?;
        let path = g.max_path(|d| score_of(d, s2), |_| false);
        check_walk("max_path(none solid)", &g, &gm, &path, true)?;
    } else if !g.max_path(|_| 1.0, |_| true).is_empty() {
        return Err("max_path on an empty graph is not empty".into());
    }

    // get_valid_exts / fix_exts under a random node bitset
    let mut removed_any = false;
    let mut kept_any = false;
    {
        let mut stt = c.aux ^ 0xfeed;
        let mut bs = BitSet::with_capacity(gm.nodes.len());
        for i in 0..gm.nodes.len() {
            if splitmix(&mut stt) % 4 != 0 {
                bs.insert(i);
            }
        }
        let expect = |valid: Option<&BitSet>| -> Vec<u8> {
            (0..gm.nodes.len())
                .map(|u| {
                    let mut e = 0u8;
                    for dir in [LEFT, RIGHT] {
                        for b in model::ext_bases(gm.nodes[u].exts, dir) {
                            let acc = gm.acceptable(&model::extend(gm.term(u, dir), dir, b), dir);
                            let ok = acc.iter().any(|l| valid.map(|v| v.contains(l.0)).unwrap_or(true));
                            if ok {
                                e |= model::ext_with(dir, b);
                            }
                        }
                    }
                    e
                })
                .collect()
        };
        let want_some = expect(Some(&bs));
        let want_none = expect(None);
        for u in 0..gm.nodes.len() {
            let got = g.get_valid_exts(u, Some(&bs)).val;
            if got != want_some[u] {
                return Err(format!(
                    "get_valid_exts(node {}, bitset) = {:#04x}, model filter gives {:#04x} (node exts {:#04x})",
                    u, got, want_some[u], gm.nodes[u].exts
                ));
            }
            let got = g.get_valid_exts(u, None).val;
            if got != want_none[u] {
                return Err(format!(
                    "get_valid_exts(node {}, None) = {:#04x}, model filter gives {:#04x}",
                    u, got, want_none[u]
                ));
            }
            if want_some[u] != gm.nodes[u].exts {
                removed_any = true;
            }
            if want_some[u] != 0 {
                kept_any = true;
            }
        }
        // fix_exts(None): only unresolvable extensions disappear, nothing else changes
        g.fix_exts(None);
        let after = GModel::of_graph(&g);
        for u in 0..gm.nodes.len() {
            if after.nodes[u].exts != want_none[u] {
                return Err(format!("fix_exts(None): node {} has exts {:#04x}, want {:#04x}", u, after.nodes[u].exts, want_none[u]));
            }
            if after.nodes[u].seq != gm.nodes[u].seq || after.nodes[u].data != gm.nodes[u].data {
                return Err(format!("fix_exts(None) changed node {}'s sequence or payload", u));
            }
        }
        // every extension now resolves, so the beam search is in its domain
        if !after.nodes.is_empty() {
            let s1 = c.aux.rotate_left(23);
            let beam = 1 + (c.aux % 5) as usize;
            let path = g.max_path_beam(beam, |d| score_of(d, s1), |_| true);
            if path.is_empty() {
                return Err("max_path_beam returned an empty path on a non-empty graph".into());
            }
            // the beam search may close a cycle (its last element may repeat a node); only validity and spelling are required
            check_walk("max_path_beam", &g, &after, &path, false)?;
        }
        g.fix_exts(Some(&bs));
        let after2 = GModel::of_graph(&g);
        for u in 0..gm.nodes.len() {
            if after2.nodes[u].exts != want_some[u] {
                return Err(format!(
                    "fix_exts(bitset): node {} has exts {:#04x}, want {:#04x}",
                    u, after2.nodes[u].exts, want_some[u]
                ));
            }
        }
    }

    Ok(Outcome::new(st.resolvable >= 1)
        .label(st.resolvable >= 1, "has_resolvable_edge")
        .label(st.dangling >= 1, "has_dangling_ext")
        .label(st.flips >= 1, "has_flip_edge")
        .label(st.self_links >= 1, "has_self_link")
        .label(st.pal_single_nodes >= 1, "has_palindromic_single_kmer_node")
        .label(absent >= 1, "absent_kmer_probed")
        .label(walked >= 2, "walk_len>=2")
        .label(walked >= 4, "walk_len>=4")
        .label(removed_any && kept_any, "bitset_prunes_some_keeps_some")
        .label(c.stranded, "stranded"))
}

fn sum_score(d: &SumPay, seed: u64) -> f32 {
    ((d.xh ^ seed).wrapping_mul(0x9E3779B97F4A7C15) >> 54) as f32
}

// ------------------------------------------------------------------------------------------------
// k-mer level pruning under random censor subsets

#[derive(Debug, Clone, Serialize, Deserialize)]
pub struct PruneCase {
    pub g: GCase,
    pub in_shard: u64,
    pub valid: u64,
    pub shard_mod: u8,
    pub valid_mod: u8,
}

fn prune_case(k: usize, env: &Env) -> BoxedStrategy<PruneCase> {
    (gcase(k, env, false), any::<u64>(), any::<u64>(), 1u8..5, 1u8..5)
        .prop_map(|(g, in_shard, valid, shard_mod, valid_mod)| PruneCase {
            g,
            in_shard,
            valid,
            shard_mod,
            valid_mod,
        })
        .boxed()
}

fn check_prune<K: Kmer>(c: &PruneCase) -> CheckResult {
    let k = K::k();
    let stranded = c.g.stranded;
    let reads = c.g.reads(k);
    let mt = model::build_table(&reads, k, stranded);
    let global: PTable<SumPay> = ptable(&mt, 1);
    // subsets as pure functions of (k-mer, seed): all ⊇ shard-all ⊇ valid
    let pick = |s: &Seq, seed: u64, m: u8| -> bool {
        let h = crate::util::fnv64(&[&s[..], &seed.to_le_bytes()[..]].concat());
        m <= 1 || h % (m as u64) != 0
    };
    let shard_all: BTreeSet<Seq> = global.keys().filter(|s| pick(s, c.in_shard, c.shard_mod)).cloned().collect();
    let valid: BTreeSet<Seq> = shard_all.iter().filter(|s| pick(s, c.valid, c.valid_mod)).cloned().collect();

    let mk = |set: &BTreeSet<Seq>| -> Vec<(K, (Exts, SumPay))> {
        let mut v: Vec<(K, (Exts, SumPay))> = set
            .iter()
            .map(|s| (K::from_bytes(s), (Exts::new(global[s].0), global[s].1.clone())))
            .collect();
        v.sort_by(|a, b| a.0.cmp(&b.0));
        v
    };
    let cmp = |what: &str, got: &[(K, (Exts, SumPay))], before: &[(K, (Exts, SumPay))], want: &BTreeMap<Seq, u8>| -> Result<(usize, usize), String> {
        if got.len() != before.len() {
            return Err(format!("{}: length changed", what));
        }
        let mut removed = 0;
        let mut kept = 0;
        for (g, b) in got.iter().zip(before.iter()) {
            if g.0 != b.0 || (g.1).1 != (b.1).1 {
                return Err(format!("{}: a k-mer, its payload or the order changed", what));
            }
            let s = kseq(&g.0);
            let w = want[&s];
            let ok = if !stranded && is_pal(&s) {
                model::ext_closure((g.1).0.val) == model::ext_closure(w)
            } else {
                (g.1).0.val == w
            };
            if !ok {
                return Err(format!(
                    "{}: k-mer {} extensions {:#04x} -> {:#04x}, the model filter gives {:#04x}",
                    what,
                    to_ascii(&s),
                    (b.1).0.val,
                    (g.1).0.val,
                    w
                ));
            }
            removed += ((b.1).0.val ^ (g.1).0.val).count_ones() as usize;
            kept += (g.1).0.val.count_ones() as usize;
        }
        Ok((removed, kept))
    };

    // unsharded: keep exactly the extensions whose target is valid
    let before = mk(&valid);
    let mut v = before.clone();
    remove_censored_exts(stranded, &mut v);
    let want: BTreeMap<Seq, u8> = valid
        .iter()
        .map(|s| {
            let mut e = 0u8;
            for side in [LEFT, RIGHT] {
                for b in model::ext_bases(global[s].0, side) {
                    let (nb, _, _) = model::neighbour(s, side, b, stranded);
                    if valid.contains(&nb) {
                        e |= model::ext_with(side, b);
                    }
                }
            }
            (s.clone(), e)
        })
        .collect();
    let (r1, k1) = cmp("remove_censored_exts", &v, &before, &want)?;

    // sharded: remove exactly the extensions whose target is in the shard but not valid
    let mut v2 = before.clone();
    let all_sorted: Vec<K> = {
        let mut a: Vec<K> = shard_all.iter().map(|s| K::from_bytes(s)).collect();
        a.sort();
        a
    };
    remove_censored_exts_sharded(stranded, &mut v2, &all_sorted);
    let want2: BTreeMap<Seq, u8> = valid
        .iter()
        .map(|s| {
            let mut e = 0u8;
            for side in [LEFT, RIGHT] {
                for b in model::ext_bases(global[s].0, side) {
                    let (nb, _, _) = model::neighbour(s, side, b, stranded);
                    if valid.contains(&nb) || !shard_all.contains(&nb) {
                        e |= model::ext_with(side, b);
                    }
                }
            }
            (s.clone(), e)
        })
        .collect();
    let (r2, k2) = cmp("remove_censored_exts_sharded", &v2, &before, &want2)?;

    // the shipped two-call flow: filter_kmers(.., report_all_kmers = true, ..) hands back the table AND the list of
    // every observed k-mer; the list goes to remove_censored_exts_sharded exactly as returned
    let mut flow_removed = 0;
    if k >= 4 {
        let mc = c.g.min_count();
        let seqs = crate::pipeline::to_seqs(&reads);
        let (bm, all) = debruijn::filter::filter_kmers::<K, debruijn::DnaBytes, u8, u16, debruijn::filter::CountFilter>(
            &seqs,
            &Box::new(debruijn::filter::CountFilter::new(mc)),
            stranded,
            true,
            1,
        );
        let kept: BTreeSet<Seq> = ptable::<SumPay>(&mt, mc).keys().cloned().collect();
        let mut v3: Vec<(K, (Exts, SumPay))> = Vec::new();
        for (km, e, _) in bm.iter() {
            let sq = kseq(km);
            match global.get(&sq) {
                Some(g) if kept.contains(&sq) => v3.push((*km, (*e, g.1.clone()))),
                _ => return Err(format!("filter_kmers retains {} which the reference grouping does not (threshold {})", to_ascii(&sq), mc)),
            }
        }
        if v3.len() != kept.len() {
            return Err(format!("filter_kmers retains {} k-mers, the reference grouping {}", v3.len(), kept.len()));
        }
        v3.sort_by(|a, b| a.0.cmp(&b.0));
        let before3 = v3.clone();
        remove_censored_exts_sharded(stranded, &mut v3, &all);
        // every k-mer of these whole reads is in the list, so an extension survives iff its target was retained
        let want3: BTreeMap<Seq, u8> = kept
            .iter()
            .map(|s| {
                let mut e = 0u8;
                for side in [LEFT, RIGHT] {
                    for b in model::ext_bases(global[s].0, side) {
                        let (nb, _, _) = model::neighbour(s, side, b, stranded);
                        if kept.contains(&nb) || !global.contains_key(&nb) {
                            e |= model::ext_with(side, b);
                        }
                    }
                }
                (s.clone(), e)
            })
            .collect();
        let (r3, _) = cmp("filter_kmers(report_all_kmers) -> remove_censored_exts_sharded", &v3, &before3, &want3)?;
        flow_removed = r3;
    }
    let outside = global.len() > shard_all.len();
    Ok(Outcome::new(r1 >= 1 && k1 >= 1)
        .label(r1 >= 1 && k1 >= 1, "unsharded_removes_some_keeps_some")
        .label(r2 >= 1 && k2 >= 1, "sharded_removes_some_keeps_some")
        .label(outside && r2 < r1, "sharded_keeps_ext_leaving_shard")
        .label(flow_removed >= 1, "filter_then_sharded_prune_removes_some")
        .label(stranded, "stranded"))
}

fn build<K: Kmer + Send + Sync + 'static>(name: &'static str, _env: &Env) -> Vec<Box<dyn Job>> {
    let k = K::k();
    let small = k <= 8;
    let (q, t) = if small { (400, 15000) } else { (120, 4000) };
    vec![
        PropJob::new(
            format!("edges/{}", name),
            q,
            t,
            move |e: &Env| gcase(k, e, false),
            |c: &GCase| check::<K, SumPay>(c, &sum_score),
        )
        .with_render(move |c: &GCase| json!({"reads": c.rs.render(k), "stranded": c.stranded}))
        .boxed(),
        PropJob::new(
            format!("prune_kmers/{}", name),
            q,
            t,
            move |e: &Env| prune_case(k, e),
            |c: &PruneCase| check_prune::<K>(c),
        )
        .with_render(move |c: &PruneCase| json!({"reads": c.g.rs.render(k), "stranded": c.g.stranded}))
        .boxed(),
    ]
}

/// A k-mer observed more than 65 535 times whose last observations bring a NEW adjacency: the edge must not be lost.
fn saturated_job<K: Kmer + Send + Sync + 'static>(name: &'static str) -> Box<dyn Job> {
    fn make<K: Kmer>(seed: u64, variant: usize) -> GCase {
        let k = K::k();
        let b = (seed % 4) as u8;
        let x = ((seed / 4) % 3 + 1 + b as u64) as u8 % 4; // x != b
        let homo = vec![b; 65535 + k + 2 + variant];
        let mut st = seed;
        let mut late: Vec<u8> = vec![b; k];
        late.push(x);
        for _ in 0..k + 3 {
            late.push((splitmix(&mut st) % 4) as u8);
        }
        let mut early: Vec<u8> = vec![x];
        early.extend(vec![b; k]);
        let recipes = match variant % 3 {
            0 => vec![(crate::gen::reads::Recipe::Raw(homo), 0), (crate::gen::reads::Recipe::Raw(late), 1)],
            1 => vec![(crate::gen::reads::Recipe::Raw(early), 1), (crate::gen::reads::Recipe::Raw(homo), 0), (crate::gen::reads::Recipe::Raw(late), 2)],
            _ => vec![(crate::gen::reads::Recipe::Raw(late), 1), (crate::gen::reads::Recipe::Raw(homo), 0)],
        };
        GCase {
            rs: crate::gen::reads::ReadSet { genome: Vec::new(), recipes },
            stranded: seed & 16 != 0,
            min_count: 1,
            entry: crate::pipeline::Entry3::Hash,
            shards: 0,
            shard_pick: 0,
            aux: seed,
        }
    }
    EnumJob {
        name: format!("saturated_counts/{}", name),
        run: Box::new(move |env: &Env, rep: &mut JobReport| {
            for variant in 0..3usize {
                let seed = env.job_seed("saturated") ^ (variant as u64 * 977);
                let c = make::<K>(seed, variant);
                match guarded(|| check::<K, SumPay>(&c, &sum_score)) {
                    Ok(_) => rep.pass(&Outcome::new(true).label(true, "kmer_with>65535_observations"), seed, || {
                        serde_json::json!({"type": name, "variant": variant, "stranded": c.stranded})
                    }),
                    Err(m) => rep.fail(m, serde_json::json!({"seed": seed.to_string(), "variant": variant})),
                }
            }
        }),
        replay: Box::new(move |case: &serde_json::Value| {
            let c = case.get("case").unwrap_or(case);
            let seed: u64 = c.get("seed").and_then(|v| v.as_str()).and_then(|s| s.parse().ok()).ok_or("no seed")?;
            let variant = c.get("variant").and_then(|v| v.as_u64()).ok_or("no variant")? as usize;
            let gc = make::<K>(seed, variant);
            Ok(guarded(|| check::<K, SumPay>(&gc, &sum_score)))
        }),
    }
    .boxed()
}

#[cfg(not(fuzzing))]
pub fn jobs(env: &Env) -> Vec<Box<dyn Job>> {
    let mut out: Vec<Box<dyn Job>> = vec![
        saturated_job::<crate::ktypes::Kmer5>("Kmer5"),
        saturated_job::<crate::ktypes::Kmer16>("Kmer16"),
        saturated_job::<crate::ktypes::Kmer31>("Kmer31"),
    ];
    crate::kmers_ge4!(build, out, env);
    out
}
