//! C02 — nodes are exactly the maximal unbranched paths.

use boomphf::hashmap::BoomHashMap2;
use debruijn::compression::compress_kmers_with_hash;
use debruijn::{Exts, Kmer};
use serde_json::json;

use crate::model;
use crate::pipeline::{
    attach_payloads, build_base, describe_partition_diff, nodes_of_base, parts_of, ptable, real_filter, ColPay,
    Entry3, PTable, PayKind, SumPay,
};
use crate::props::gcase::{gcase, GCase};
use crate::runner::{CheckResult, Env, Job, Outcome, PropJob};

pub const RULE: &str = "case = read set x stranded x threshold x entry point (hash table with extensions pruned to present k-mers, sorted slice pruned by remove_censored_exts, bare k-mers) x join predicate (always-true SimpleCompress, equality 'colour' ScmapCompress over label sets); oracle = connected components (union-find) of the compressible links of the bidirected k-mer graph computed from the string-level table; the partition of k-mers into nodes must equal it exactly (no under- and no over-merging). Non-trivial = expected partition has a component of size >= 2 and at least one present-but-not-compressible link (branch, palindrome, self/hairpin link, colour boundary).";
pub const TECHNIQUE: &str = "seeded proptest; independent union-find over compressible links of the string-level bidirected k-mer graph";

pub fn check<K: Kmer + Send + Sync, P: PayKind>(c: &GCase) -> CheckResult {
    let k = K::k();
    let reads = c.reads(k);
    let (nodes, seen): (_, PTable<P>) = match c.entry {
        Entry3::Hash => {
            // hash-table entry point on a table whose extensions reference only present k-mers:
            // the extension bytes are pruned by the reference model before the table is handed over
            let mt = model::build_table(&reads, k, c.stranded);
            let pt: PTable<P> = ptable(&mt, c.min_count());
            let bm = real_filter::<K>(&reads, c.stranded, c.min_count())?;
            let (keys, _exts, data) = attach_payloads::<K, P>(&bm, &pt, c.stranded)?;
            let pruned = model::prune_exts(&pt, c.stranded);
            let exts: Vec<Exts> = keys
                .iter()
                .map(|kk| Exts::new(pruned[&crate::ktypes::kseq(kk)].0))
                .collect();
            let index = BoomHashMap2::new(keys, exts, data);
            let g = compress_kmers_with_hash(c.stranded, &P::spec(), &index);
            (nodes_of_base(&g), pruned)
        }
        e => {
            // C02 is stated for input whose extensions reference only present k-mers: the unpruned
            // sorted-slice entry point is therefore replaced by the pruned one here
            let e = if e == Entry3::SortedSliceRaw { Entry3::SortedSlice } else { e };
            let (g, seen) = build_base::<K, P>(&reads, c.stranded, c.min_count(), e)?;
            (nodes_of_base(&g), seen)
        }
    };
    // every fourth case goes on through the node-level route: one k-mer per node (randomly oriented,
    // shuffled) -> finish -> compress_graph; the same partition must come out
    let via_graph = c.aux % 4 == 0;
    let nodes = if via_graph {
        let singles = crate::props::c09::split_nodes(&nodes, &seen, k, c.stranded, true, c.aux);
        let base: debruijn::graph::BaseGraph<K, P> = crate::props::c09::base_from_nodes(&singles, c.stranded);
        let g = if c.aux & 4 == 0 { base.finish() } else { base.finish_serial() };
        let res = debruijn::compression::compress_graph(c.stranded, &P::spec(), g, None);
        crate::pipeline::nodes_of(&res)
    } else {
        nodes
    };
    let pruned = model::prune_exts(&seen, c.stranded);
    if !model::table_consistent(&pruned, c.stranded) {
        return Err("harness: generated table is not consistent (generator problem)".into());
    }
    let info = model::expected_partition(&pruned, c.stranded, &|a: &P, b: &P| P::join(a, b))?;
    let got = parts_of(&nodes, k, c.stranded);
    if got != info.parts {
        return Err(format!(
            "node partition differs from the maximal unbranched paths: {}",
            describe_partition_diff(&got, &info.parts)
        ));
    }
    let big = info.parts.iter().any(|p| p.len() >= 2);
    Ok(Outcome::new(big && info.blocked_links > 0)
        .label(info.has_palindrome, "has_palindrome")
        .label(info.has_self_link, "has_self_or_hairpin_link")
        .label(info.has_branch, "has_branch")
        .label(info.has_join_boundary, "has_colour_boundary")
        .label(big, "component>=2")
        .label(info.parts.iter().any(|p| p.len() >= 8), "component>=8")
        .label(via_graph, "via_compress_graph")
        .label(c.stranded, "stranded")
        .label(c.entry == Entry3::Hash, "entry_hash")
        .label(c.entry == Entry3::SortedSlice, "entry_sorted_slice")
        .label(c.entry == Entry3::NoExts, "entry_no_exts"))
}

fn build<K: Kmer + Send + Sync + 'static>(name: &'static str, _env: &Env) -> Vec<Box<dyn Job>> {
    let k = K::k();
    let small = k <= 8;
    let (q, t) = if small { (500, 20000) } else { (150, 5000) };
    let mk = |pay: &'static str, f: fn(&GCase) -> CheckResult| -> Box<dyn Job> {
        PropJob::new(
            format!("maximal/{}/{}", name, pay),
            q,
            t,
            move |e: &Env| gcase(k, e, false),
            f,
        )
        .with_render(move |c: &GCase| json!({"reads": c.rs.render(k), "stranded": c.stranded}))
        .boxed()
    };
    vec![mk(SumPay::NAME, check::<K, SumPay>), mk(ColPay::NAME, check::<K, ColPay>)]
}

#[cfg(not(fuzzing))]
pub fn jobs(env: &Env) -> Vec<Box<dyn Job>> {
    let mut out: Vec<Box<dyn Job>> = Vec::new();
    crate::kmers_ge4!(build, out, env);
    out
}
