//! C08 — shard assignment is a pure, strand-symmetric function of the k-mer.

use std::collections::BTreeMap;

use debruijn::dna_string::DnaString;
use debruijn::msp::{msp_sequence, Scanner};
use debruijn::DnaSlice;
use debruijn::vmer::Lmer;
use debruijn::{DnaBytes, Exts, Kmer, Mer, Vmer};
use proptest::prelude::*;
use serde::{Deserialize, Serialize};
use serde_json::json;

use crate::gen::reads::{read_set, ReadSet};
use crate::props::c10::rank;
use crate::runner::{CheckResult, Env, Job, Outcome, PropJob};
use crate::util::{canon, permutation, rc, to_ascii, Seq};

pub const RULE: &str = "case = read set in which reads and their reverse complements both occur, p-mer type P (2..8 bases), k in p+1..p+30 (bounded by the piece container), permutation in {default (None), generated permutation of the 4^p p-mers}, rc mode on/off, piece container in {Lmer1, Lmer2, Lmer3, DnaString, DnaBytes}; oracle: reads shorter than k give no pieces; pieces re-tile the read in order with k-1 overlaps and each piece is the exact substring; piece extensions are exactly the flanking bases (none at read ends); bucket < 4^p; the map (canonical k-mer in rc mode / k-mer otherwise) -> bucket over ALL occurrences in all pieces of all reads is a function; the bucket's p-mer (or its reverse complement) occurs inside every k-mer of the piece; msp_sequence, the deprecated simple_scan and Scanner::scan (asked twice) + MspIntervalP::bucket agree on intervals and bucket ids; msp_sequence repeated on a fresh thread after calls for other p-mer types gives the same pieces. Non-trivial = some k-mer occurs in >= 2 different pieces (in rc mode: in both orientations).";
pub const TECHNIQUE: &str = "seeded proptest; functional-dependency check k-mer -> bucket over all occurrences, substring/flank equality against the plain read";

#[derive(Debug, Clone, Serialize, Deserialize)]
pub struct Case {
    pub rs: ReadSet,
    pub k_extra: u8,
    pub perm_seed: Option<u64>,
    pub rcmode: bool,
    pub container: u8,
}

pub fn case_strategy(p: usize, env: &Env) -> BoxedStrategy<Case> {
    // read recipes are sized for "k" = p + 8 or so; actual k = p + 1 + k_extra
    let maxr = env.pick(6, 16);
    (1u8..30, proptest::option::weighted(0.7, any::<u64>()), any::<bool>(), 0u8..5)
        .prop_flat_map(move |(k_extra, perm_seed, rcmode, container)| {
            let k = p + 1 + k_extra as usize;
            (read_set(k, maxr, 2), Just(k_extra), Just(perm_seed), Just(rcmode), Just(container))
        })
        .prop_map(|(rs, k_extra, perm_seed, rcmode, container)| Case {
            rs,
            k_extra,
            perm_seed,
            rcmode,
            container,
        })
        .boxed()
}

#[derive(Debug, Clone)]
pub struct Piece {
    pub bucket: u32,
    pub exts: u8,
    pub bytes: Seq,
}

fn to_piece<V: Vmer>(x: (u32, Exts, V)) -> Piece {
    Piece {
        bucket: x.0,
        exts: (x.1).val,
        bytes: (0..x.2.len()).map(|i| x.2.get(i)).collect(),
    }
}

/// Which containers can hold pieces of up to 2k-p bases.
pub fn container_name(container: u8, k: usize, p: usize) -> &'static str {
    let need = 2 * k - p;
    match container {
        0 if need <= 28 => "Lmer1",
        1 if need <= 60 => "Lmer2",
        2 if need <= 92 => "Lmer3",
        3 => "DnaString",
        _ => {
            if container <= 2 {
                "DnaString"
            } else {
                "DnaBytes"
            }
        }
    }
}

pub fn pieces<P: Kmer>(k: usize, seq: &[u8], perm: Option<&[usize]>, rcmode: bool, cname: &str) -> Vec<Piece> {
    match cname {
        "Lmer1" => msp_sequence::<P, Lmer<[u64; 1]>>(k, seq, perm, rcmode).into_iter().map(to_piece).collect(),
        "Lmer2" => msp_sequence::<P, Lmer<[u64; 2]>>(k, seq, perm, rcmode).into_iter().map(to_piece).collect(),
        "Lmer3" => msp_sequence::<P, Lmer<[u64; 3]>>(k, seq, perm, rcmode).into_iter().map(to_piece).collect(),
        "DnaString" => msp_sequence::<P, DnaString>(k, seq, perm, rcmode)
            .into_iter()
            .map(|x| {
                // value identity, not only equal bases: the piece must be == to the string built from the same bases
                let bytes: Seq = (0..x.2.len()).map(|i| x.2.get(i)).collect();
                let reference = DnaString::from_bytes(&bytes);
                let same_value = x.2 == reference && x.2.cmp(&reference) == std::cmp::Ordering::Equal;
                let mut p = to_piece(x);
                if !same_value {
                    // flagged through an impossible bucket value; reported by the caller
                    p.bucket = u32::MAX;
                }
                p
            })
            .collect(),
        _ => msp_sequence::<P, DnaBytes>(k, seq, perm, rcmode).into_iter().map(to_piece).collect(),
    }
}

pub fn perm_table(p: usize, seed: Option<u64>) -> Option<Vec<usize>> {
    seed.map(|s| permutation(1usize << (2 * p), s))
}

fn check<P: Kmer>(c: &Case) -> CheckResult {
    let p = P::k();
    let k = p + 1 + c.k_extra as usize;
    let reads = c.rs.materialise(k);
    let table = perm_table(p, c.perm_seed);
    let cname = container_name(c.container, k, p);
    // canonical/plain k-mer -> (bucket, first seen where)
    let mut bucket_of: BTreeMap<Seq, (u32, usize, usize)> = BTreeMap::new();
    let mut occ: BTreeMap<Seq, (usize, bool, bool)> = BTreeMap::new(); // pieces seen, fwd, rc
    let mut multi_piece = false;
    let mut npieces = 0usize;
    for (ri, r) in reads.iter().enumerate() {
        let ps = pieces::<P>(k, &r.seq, table.as_deref(), c.rcmode, cname);
        let n = r.seq.len();
        // a pure function: the same call on a fresh thread, after a call for another p-mer type and repeated,
        // gives the same pieces (nothing may be carried over between calls)
        if ri == 0 && ((table.is_none() && c.k_extra % 2 == 1) || c.k_extra % 8 == 1) {
            let seq = &r.seq;
            let tab = table.as_deref();
            let rcmode = c.rcmode;
            let res = std::thread::scope(|sc| {
                sc.spawn(move || {
                    let _ = msp_sequence::<crate::ktypes::Kmer2, DnaBytes>(k, seq, None, rcmode);
                    let a = pieces::<P>(k, seq, tab, rcmode, cname);
                    let _ = msp_sequence::<crate::ktypes::Kmer3, DnaBytes>(k.max(3), seq, None, !rcmode);
                    let b = pieces::<P>(k, seq, tab, rcmode, cname);
                    (a, b)
                })
                .join()
            });
            let key = |v: &[Piece]| -> Vec<(u32, u8, Seq)> { v.iter().map(|x| (x.bucket, x.exts, x.bytes.clone())).collect() };
            match res {
                Err(_) => return Err(format!("read {}: msp_sequence panicked on a fresh thread", ri)),
                Ok((a, b)) => {
                    if key(&a) != key(&ps) || key(&b) != key(&ps) {
                        return Err(format!(
                            "read {}: msp_sequence gives {} pieces here, {} / {} pieces on a fresh thread after calls for other p-mer types: the result depends on earlier calls",
                            ri,
                            ps.len(),
                            a.len(),
                            b.len()
                        ));
                    }
                }
            }
        }
        if n < k {
            if !ps.is_empty() {
                return Err(format!("read {} is shorter than k but produced {} pieces", ri, ps.len()));
            }
            continue;
        }
        if ps.is_empty() {
            return Err(format!("read {} of length {} >= k = {} produced no piece", ri, n, k));
        }
        // the other public front ends must assign the same bucket ids to the same intervals:
        // the deprecated simple_scan (p <= 8) and Scanner::scan + MspIntervalP::bucket with the equivalent score
        {
            let ident: Vec<usize>;
            let tab: &[usize] = match table.as_deref() {
                Some(t) => t,
                None => {
                    ident = (0..(1usize << (2 * p))).collect();
                    &ident
                }
            };
            #[allow(deprecated)]
            let ss = debruijn::msp::simple_scan::<_, P>(k, &DnaSlice(&r.seq), tab, c.rcmode);
            let score = |pm: &P| {
                let x = tab[pm.to_u64() as usize];
                if c.rcmode {
                    x.min(tab[pm.rc().to_u64() as usize])
                } else {
                    x
                }
            };
            let dslice = DnaSlice(&r.seq);
            let scanner = Scanner::new(&dslice, score, k);
            let first_scan = scanner.scan();
            // a two-pass user asks the same scanner again: same intervals
            let sc = scanner.scan();
            if first_scan.len() != sc.len() || first_scan.iter().zip(sc.iter()).any(|(a, b)| a.start != b.start || a.len != b.len || a.bucket() != b.bucket()) {
                return Err(format!("read {}: a second scan() on the same Scanner gives different intervals ({} vs {})", ri, first_scan.len(), sc.len()));
            }
            if ss.len() != ps.len() || sc.len() != ps.len() {
                return Err(format!(
                    "read {}: msp_sequence gives {} pieces, simple_scan {} intervals, Scanner {} intervals",
                    ri,
                    ps.len(),
                    ss.len(),
                    sc.len()
                ));
            }
            for i in 0..ps.len() {
                if ss[i].len() != ps[i].bytes.len() || sc[i].len as usize != ps[i].bytes.len() || ss[i].start() != sc[i].start as usize {
                    return Err(format!("read {} interval {}: the three front ends disagree on the interval", ri, i));
                }
                if ss[i].bucket() as u32 != ps[i].bucket || sc[i].bucket() as u32 != ps[i].bucket {
                    return Err(format!(
                        "read {} interval {}: bucket id {} from msp_sequence, {} from simple_scan, {} from Scanner/bucket(): the same k-mers are sent to different shards depending on the entry point",
                        ri,
                        i,
                        ps[i].bucket,
                        ss[i].bucket(),
                        sc[i].bucket()
                    ));
                }
            }
        }
        let mut start = 0usize;
        for (pi, pc) in ps.iter().enumerate() {
            npieces += 1;
            let len = pc.bytes.len();
            if len < k || len > 2 * k - p {
                return Err(format!("read {} piece {}: length {} outside [k, 2k-p]", ri, pi, len));
            }
            if start + len > n || r.seq[start..start + len] != pc.bytes[..] {
                return Err(format!(
                    "read {} piece {}: bytes {} are not the substring of the read at {} (expected by k-1 tiling)",
                    ri,
                    pi,
                    to_ascii(&pc.bytes),
                    start
                ));
            }
            let want_l = if start > 0 { 1u8 << r.seq[start - 1] } else { 0 };
            let want_r = if start + len < n { 1u8 << r.seq[start + len] } else { 0 };
            if pc.exts != (want_l | (want_r << 4)) {
                return Err(format!(
                    "read {} piece {} [{}..{}): boundary extensions {:#04x}, flanking bases give {:#04x}",
                    ri,
                    pi,
                    start,
                    start + len,
                    pc.exts,
                    want_l | (want_r << 4)
                ));
            }
            if pc.bucket == u32::MAX && cname == "DnaString" {
                return Err(format!(
                    "read {} piece {}: the DnaString piece has the right bases but is not == to the string built from the same bases (spare storage / padding)",
                    ri, pi
                ));
            }
            if (pc.bucket as u64) >= (1u64 << (2 * p)) {
                return Err(format!("bucket {} out of range for p = {}", pc.bucket, p));
            }
            // bucket's p-mer (either strand) must occur in every k-mer of the piece
            let bp = crate::props::c10::digits(pc.bucket as u64, p);
            let bprc = rc(&bp);
            for off in 0..=len - k {
                let w = &pc.bytes[off..off + k];
                let has = w.windows(p).any(|x| x == &bp[..] || x == &bprc[..]);
                if !has {
                    return Err(format!(
                        "read {} piece {}: bucket p-mer {} does not occur in k-mer {} of the piece",
                        ri,
                        pi,
                        to_ascii(&bp),
                        to_ascii(w)
                    ));
                }
                let key = if c.rcmode { canon(w, false) } else { w.to_vec() };
                let flipped = c.rcmode && key.as_slice() != w;
                let e = occ.entry(key.clone()).or_insert((0, false, false));
                e.0 += 1;
                if flipped {
                    e.2 = true;
                } else {
                    e.1 = true;
                }
                match bucket_of.get(&key) {
                    None => {
                        bucket_of.insert(key, (pc.bucket, ri, pi));
                    }
                    Some((b, r0, p0)) => {
                        if (*r0, *p0) != (ri, pi) {
                            multi_piece = true;
                        }
                        if *b != pc.bucket {
                            return Err(format!(
                                "k-mer {} is emitted with bucket {} (read {} piece {}) and with bucket {} (read {} piece {})",
                                to_ascii(w),
                                b,
                                r0,
                                p0,
                                pc.bucket,
                                ri,
                                pi
                            ));
                        }
                    }
                }
            }
            if pi + 1 < ps.len() {
                start = start + len - k + 1;
            } else if start + len != n {
                return Err(format!("read {}: last piece ends at {} not at the read end {}", ri, start + len, n));
            }
        }
    }
    let both = occ.values().any(|e| e.1 && e.2);
    let nontrivial = multi_piece && (!c.rcmode || both);
    Ok(Outcome::new(nontrivial)
        .label(multi_piece, "kmer_in_two_pieces")
        .label(both, "kmer_in_both_orientations")
        .label(c.rcmode, "rc_mode")
        .label(c.perm_seed.is_some(), "arbitrary_permutation")
        .label(cname.starts_with("Lmer"), "container_lmer")
        .label(npieces >= 4, "pieces>=4")
        .label(reads.iter().any(|r| r.seq.len() == k), "read_len==k"))
}

fn build<P: Kmer + 'static>(name: &'static str, _env: &Env) -> Vec<Box<dyn Job>> {
    let p = P::k();
    let (q, t) = if p >= 8 { (60, 1500) } else { (600, 20000) };
    vec![PropJob::new(
        format!("shards/{}", name),
        q,
        t,
        move |e: &Env| case_strategy(p, e),
        |c: &Case| check::<P>(c),
    )
    .with_render(move |c: &Case| json!({"reads": c.rs.render(p + 1 + c.k_extra as usize), "p": p, "rc": c.rcmode}))
    .boxed()]
}

#[cfg(not(fuzzing))]
pub fn jobs(env: &Env) -> Vec<Box<dyn Job>> {
    let mut out: Vec<Box<dyn Job>> = Vec::new();
    crate::kmers_small!(build, out, env);
    out
}

pub fn _rank(s: &[u8]) -> u64 {
    rank(s)
}
