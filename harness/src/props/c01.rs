//! C01 — compressed graph is a lossless partition of the input k-mer set.

use debruijn::Kmer;
use serde_json::json;

use crate::model;
use crate::pipeline::{build_base, check_lossless, nodes_of_base, ColPay, Entry3, PayKind, SumPay, U16Pay};
use crate::props::gcase::{gcase, GCase};
use crate::runner::{CheckResult, Env, Job, Outcome, PropJob};

pub const RULE: &str = "case = (read set built from a small genome over a 1..4 letter alphabet by recipes: substring / rc substring / SNP / tandem repeat / homopolymer / hairpin S+loop+rc(S) / duplicate / raw incl. shorter than K, labels), stranded flag, count threshold in {1,2,3,above-all}, entry point in {hash table, sorted slice + remove_censored_exts, bare k-mers}, optionally one model-side shard (pieces whose extensions leave the table), payload kind in {commutative (count,xor-hash,n), colour set with equality join, u16 saturating}; oracle = string-level k-mer table: every key in exactly one node at one offset, no foreign k-mer, every internal step recorded as an extension of both k-mers, payload = fold over exactly the node's k-mers. Non-trivial = (>=2 nodes or a multi-k-mer node) and the table has a repeat, palindrome, self/hairpin link or branch; distinct = distinct case hashes per (K type, payload kind).";
pub const TECHNIQUE: &str = "seeded proptest over read sets x configurations against a string-level k-mer table model (validity predicate)";

pub fn check<K: Kmer, P: PayKind>(c: &GCase) -> CheckResult {
    let k = K::k();
    let reads = c.reads(k);
    let (g, seen) = build_base::<K, P>(&reads, c.stranded, c.min_count(), c.entry)?;
    let nodes = nodes_of_base(&g);
    let st = check_lossless(&nodes, &seen, k, c.stranded)?;
    if g.stranded != c.stranded {
        return Err("BaseGraph.stranded does not record the requested mode".into());
    }
    // features of the table (for the non-triviality rule and the label histogram)
    let pruned = model::prune_exts(&seen, c.stranded);
    let info = model::expected_partition(&pruned, c.stranded, &|a: &P, b: &P| P::join(a, b))?;
    let mt = model::build_table(&reads, k, c.stranded);
    let repeat = mt.values().any(|e| e.count() >= 2);
    let feature = repeat || info.has_palindrome || info.has_self_link || info.has_branch;
    let nontrivial = (st.nodes >= 2 || st.multi_kmer_nodes >= 1) && feature;
    Ok(Outcome::new(nontrivial)
        .label(info.has_palindrome, "has_palindrome")
        .label(info.has_self_link, "has_self_or_hairpin_link")
        .label(info.has_branch, "has_branch")
        .label(repeat, "has_repeat")
        .label(st.multi_kmer_nodes > 0, "multi_kmer_node")
        .label(st.nodes == 0, "empty_graph")
        .label(c.stranded, "stranded")
        .label(c.entry == Entry3::Hash, "entry_hash")
        .label(c.entry == Entry3::SortedSlice, "entry_sorted_slice")
        .label(c.entry == Entry3::NoExts, "entry_no_exts")
        .label(c.entry == Entry3::SortedSliceRaw, "entry_sorted_slice_unpruned")
        .label(c.shards >= 2, "shard_table_with_outside_exts")
        .label(c.min_count >= 2 && c.min_count != 255, "threshold>=2"))
}

fn build<K: Kmer + 'static>(name: &'static str, _env: &Env) -> Vec<Box<dyn Job>> {
    let k = K::k();
    let small = k <= 8;
    let (q, t) = if small { (500, 20000) } else { (150, 5000) };
    let mk = |pay: &'static str, f: fn(&GCase) -> CheckResult, q: u32, t: u32| -> Box<dyn Job> {
        PropJob::new(
            format!("lossless/{}/{}", name, pay),
            q,
            t,
            move |e: &Env| gcase(k, e, true),
            f,
        )
        .with_render(move |c: &GCase| json!({"reads": c.rs.render(k), "stranded": c.stranded}))
        .boxed()
    };
    vec![
        mk(SumPay::NAME, check::<K, SumPay>, q, t),
        mk(ColPay::NAME, check::<K, ColPay>, q / 2, t / 2),
        mk(U16Pay::NAME, check::<K, U16Pay>, q / 2, t / 2),
    ]
}

#[cfg(not(fuzzing))]
pub fn jobs(env: &Env) -> Vec<Box<dyn Job>> {
    let mut out: Vec<Box<dyn Job>> = Vec::new();
    crate::kmers_ge4!(build, out, env);
    out
}
