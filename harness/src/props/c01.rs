//! C01 — compressed graph is a lossless partition of the input k-mer set.

use debruijn::Kmer;
use serde_json::json;

use crate::model;
use crate::pipeline::{build_base, check_lossless, nodes_of_base, ColPay, Entry3, PayKind, SumPay, U16Pay};
use crate::props::gcase::{gcase, GCase};
use crate::runner::{guarded, CheckResult, EnumJob, Env, Job, JobReport, Outcome, PropJob};
use crate::util::splitmix;

pub const RULE: &str = "case = (read set built from a small genome over a 1..4 letter alphabet by recipes: substring / rc substring / SNP / tandem repeat / homopolymer / hairpin S+loop+rc(S) / duplicate / raw incl. shorter than K, labels), stranded flag, count threshold in {1,2,3,above-all}, entry point in {hash table, sorted slice + remove_censored_exts, bare k-mers}, optionally one model-side shard (pieces whose extensions leave the table), payload kind in {commutative (count,xor-hash,n), colour set with equality join, u16 saturating}; oracle = string-level k-mer table: every key in exactly one node at one offset, no foreign k-mer, every internal step recorded as an extension of both k-mers, payload = fold over exactly the node's k-mers. Fixed extra jobs: random reads of 65535+K-1+{-1,0,1,2,4465} bases (one node longer than 65 535 bases) for Kmer32/Kmer48. Non-trivial = (>=2 nodes or a multi-k-mer node) and the table has a repeat, palindrome, self/hairpin link or branch; distinct = distinct case hashes per (K type, payload kind).";
pub const TECHNIQUE: &str = "seeded proptest over read sets x configurations against a string-level k-mer table model (validity predicate)";

pub fn check<K: Kmer, P: PayKind>(c: &GCase) -> CheckResult {
    let k = K::k();
    let reads = c.reads(k);
    let (g, seen) = build_base::<K, P>(&reads, c.stranded, c.min_count(), c.entry)?;
    let nodes = nodes_of_base(&g);
    let st = check_lossless(&nodes, &seen, k, c.stranded)?;
    // the node k-mers as a user reads them (k-mer accessors on the packed node storage, at whatever offset the node
    // landed) must be the windows of the node sequence
    {
        use debruijn::Vmer;
        for (i, n) in nodes.iter().enumerate() {
            let sl = g.sequences.get(i);
            let nw = n.seq.len() - k + 1;
            let got: Vec<K> = sl.iter_kmers::<K>().take(nw + 4).collect();
            if got.len() != nw {
                return Err(format!("node {}: iter_kmers yields {} k-mers, the node has {}", i, got.len(), nw));
            }
            for (j, km) in got.iter().enumerate() {
                if crate::ktypes::kseq(km) != n.seq[j..j + k] {
                    return Err(format!(
                        "node {}: k-mer {} read through iter_kmers is {} but the node sequence has {} there",
                        i,
                        j,
                        crate::util::to_ascii(&crate::ktypes::kseq(km)),
                        crate::util::to_ascii(&n.seq[j..j + k])
                    ));
                }
            }
            let (f, l): (K, K) = sl.both_term_kmer();
            let mid: K = sl.get_kmer(nw / 2);
            if crate::ktypes::kseq(&f) != n.seq[..k] || crate::ktypes::kseq(&l) != n.seq[nw - 1..] || crate::ktypes::kseq(&mid) != n.seq[nw / 2..nw / 2 + k] {
                return Err(format!("node {}: first/last/get_kmer on the packed node disagree with its sequence", i));
            }
        }
    }
    if g.stranded != c.stranded {
        return Err("BaseGraph.stranded does not record the requested mode".into());
    }
    // features of the table (for the non-triviality rule and the label histogram)
    let pruned = model::prune_exts(&seen, c.stranded);
    let info = model::expected_partition(&pruned, c.stranded, &|a: &P, b: &P| P::join(a, b))?;
    let mt = model::build_table(&reads, k, c.stranded);
    let repeat = mt.values().any(|e| e.count() >= 2);
    let feature = repeat || info.has_palindrome || info.has_self_link || info.has_branch;
    let nontrivial = (st.nodes >= 2 || st.multi_kmer_nodes >= 1) && feature;
    Ok(Outcome::new(nontrivial)
        .label(info.has_palindrome, "has_palindrome")
        .label(info.has_self_link, "has_self_or_hairpin_link")
        .label(info.has_branch, "has_branch")
        .label(repeat, "has_repeat")
        .label(st.multi_kmer_nodes > 0, "multi_kmer_node")
        .label(st.nodes == 0, "empty_graph")
        .label(c.stranded, "stranded")
        .label(c.entry == Entry3::Hash, "entry_hash")
        .label(c.entry == Entry3::SortedSlice, "entry_sorted_slice")
        .label(c.entry == Entry3::NoExts, "entry_no_exts")
        .label(c.entry == Entry3::SortedSliceRaw, "entry_sorted_slice_unpruned")
        .label(c.shards >= 2, "shard_table_with_outside_exts")
        .label(c.min_count >= 2 && c.min_count != 255, "threshold>=2"))
}

fn build<K: Kmer + 'static>(name: &'static str, _env: &Env) -> Vec<Box<dyn Job>> {
    let k = K::k();
    let small = k <= 8;
    let (q, t) = if small { (500, 20000) } else { (150, 5000) };
    let mk = |pay: &'static str, f: fn(&GCase) -> CheckResult, q: u32, t: u32| -> Box<dyn Job> {
        PropJob::new(
            format!("lossless/{}/{}", name, pay),
            q,
            t,
            move |e: &Env| gcase(k, e, true),
            f,
        )
        .with_render(move |c: &GCase| json!({"reads": c.rs.render(k), "stranded": c.stranded}))
        .boxed()
    };
    vec![
        mk(SumPay::NAME, check::<K, SumPay>, q, t),
        mk(ColPay::NAME, check::<K, ColPay>, q / 2, t / 2),
        mk(U16Pay::NAME, check::<K, U16Pay>, q / 2, t / 2),
    ]
}

/// Unbranched paths longer than 65 535 bases (one very long node): a fixed handful of cases per type.
fn long_node_job<K: Kmer + 'static>(name: &'static str) -> Box<dyn Job> {
    fn make<K: Kmer>(seed: u64, delta: i64, entry: Entry3, stranded: bool) -> GCase {
        let k = K::k();
        let len = (65535i64 + k as i64 - 1 + delta) as usize;
        let mut st = seed;
        let mut r = 0u64;
        let seq: Vec<u8> = (0..len)
            .map(|j| {
                if j % 32 == 0 {
                    r = splitmix(&mut st);
                }
                ((r >> (2 * (j % 32))) & 3) as u8
            })
            .collect();
        GCase {
            rs: crate::gen::reads::ReadSet {
                genome: Vec::new(),
                recipes: vec![(crate::gen::reads::Recipe::Raw(seq), 0)],
            },
            stranded,
            min_count: 1,
            entry,
            shards: 0,
            shard_pick: 0,
            aux: seed,
        }
    }
    let variants: Vec<(i64, Entry3, bool)> = vec![
        (-1, Entry3::Hash, false),
        (0, Entry3::Hash, true),
        (1, Entry3::NoExts, false),
        (2, Entry3::SortedSlice, true),
        (4465, Entry3::Hash, false),
    ];
    let v2 = variants.clone();
    EnumJob {
        name: format!("long_node/{}", name),
        run: Box::new(move |env: &Env, rep: &mut JobReport| {
            for (i, (delta, entry, stranded)) in variants.iter().enumerate() {
                let seed = env.job_seed("long_node") ^ i as u64;
                let c = make::<K>(seed, *delta, *entry, *stranded);
                match guarded(|| check::<K, SumPay>(&c)) {
                    Ok(o) => rep.pass(&Outcome::new(true).label(o.labels.contains(&"multi_kmer_node"), "node>65535_bases"), seed, || {
                        serde_json::json!({"type": name, "read_length": 65535 + K::k() as i64 - 1 + delta, "entry": format!("{:?}", entry), "stranded": stranded})
                    }),
                    Err(m) => rep.fail(m, serde_json::json!({"seed": seed.to_string(), "variant": i})),
                }
            }
        }),
        replay: Box::new(move |case: &serde_json::Value| {
            let c = case.get("case").unwrap_or(case);
            let seed: u64 = c.get("seed").and_then(|v| v.as_str()).and_then(|s| s.parse().ok()).ok_or("no seed")?;
            let i = c.get("variant").and_then(|v| v.as_u64()).ok_or("no variant")? as usize;
            let (delta, entry, stranded) = v2[i % v2.len()];
            let gc = make::<K>(seed, delta, entry, stranded);
            Ok(guarded(|| check::<K, SumPay>(&gc)))
        }),
    }
    .boxed()
}

#[cfg(not(fuzzing))]
pub fn jobs(env: &Env) -> Vec<Box<dyn Job>> {
    let mut out: Vec<Box<dyn Job>> = vec![
        long_node_job::<crate::ktypes::Kmer32>("Kmer32"),
        long_node_job::<crate::ktypes::Kmer48>("Kmer48"),
    ];
    crate::kmers_ge4!(build, out, env);
    out
}
