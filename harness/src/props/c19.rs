//! C19 — index construction is schedule-independent and lookups are exact.

use std::collections::BTreeSet;
use std::hash::{Hash, Hasher};
use std::sync::{Mutex, OnceLock};

use debruijn::graph::{BaseGraph, DebruijnGraph};
use debruijn::{Dir, Exts, Kmer, Mer};
use proptest::prelude::*;
use rayon::ThreadPool;
use serde::{Deserialize, Serialize};
use serde_json::{json, Value};

use crate::gmodel::{d2u, u2d, GModel, Link};
use crate::ktypes::{Kmer16, Kmer32, Kmer5, Kmer8};
use crate::model::{self, LEFT, RIGHT};
use crate::pipeline::NodeV;
use crate::runner::{guarded, CheckResult, EnumJob, Env, Job, JobReport, Outcome, PropJob};
use crate::util::{rc, splitmix, to_ascii, Seq};

pub const RULE: &str = "case = a valid graph made by cutting a generated sequence set into K-1-overlapping nodes (true flanking extensions, random reverse-complement orientation when unstranded, shuffled order, some dangling extensions), from a handful of nodes up to 2.8*10^5 (quick) / 6*10^5 (thorough) nodes (fixed-size jobs), indexed by finish() inside rayon pools of 1,2,3,4,8 and 16 threads (several repeats), on the global pool, and by finish_serial(); for every node and side the edge lists, extension bytes, node ids and order, and find_link for every terminal k-mer, its reverse complement, 1-mismatch neighbours and random absent k-mers must be identical across all builds and equal to a BTreeMap model ('found as a node end exactly when some node starts or ends with it'); node ids and order are also read through `for node in &graph` and iter_nodes() under next()/nth(n) histories and skip/step_by, with size_hint bracketing the nodes left. The k-mer type is a harness newtype delegating to the crate's k-mer whose Hash impl records the hashing thread, so the evidence shows how many distinct threads really hashed keys per pool size. Non-trivial = >= 2 hashing threads observed in some build and >= 1 absent-k-mer query.";
pub const TECHNIQUE: &str = "seeded proptest + fixed large cases; differential finish() under sampled rayon pool sizes vs finish_serial() vs BTreeMap model (schedules sampled, not enumerated)";

// ------------------------------------------------------------------------------------------------
// a k-mer newtype whose Hash impl records the executing thread

static HASH_THREADS: OnceLock<Mutex<BTreeSet<String>>> = OnceLock::new();

fn note_thread() {
    thread_local! {
        static NOTED: std::cell::Cell<u64> = std::cell::Cell::new(0);
    }
    // cheap: only touch the global set when this thread's epoch is stale
    let epoch = EPOCH.load(std::sync::atomic::Ordering::Relaxed);
    NOTED.with(|n| {
        if n.get() != epoch {
            n.set(epoch);
            let id = format!("{:?}", std::thread::current().id());
            HASH_THREADS.get_or_init(|| Mutex::new(BTreeSet::new())).lock().unwrap().insert(id);
        }
    });
}

static EPOCH: std::sync::atomic::AtomicU64 = std::sync::atomic::AtomicU64::new(1);
static TRACK_LOCK: Mutex<()> = Mutex::new(());

fn take_threads() -> usize {
    let n = HASH_THREADS.get_or_init(|| Mutex::new(BTreeSet::new())).lock().unwrap().len();
    HASH_THREADS.get().unwrap().lock().unwrap().clear();
    EPOCH.fetch_add(1, std::sync::atomic::Ordering::SeqCst);
    n
}

macro_rules! tracked_kmer {
    ($name:ident, $inner:ty) => {
        #[derive(Copy, Clone, PartialEq, Eq, PartialOrd, Ord, Serialize, Deserialize)]
        pub struct $name(pub $inner);
        impl Hash for $name {
            fn hash<H: Hasher>(&self, state: &mut H) {
                note_thread();
                self.0.hash(state)
            }
        }
        impl std::fmt::Debug for $name {
            fn fmt(&self, f: &mut std::fmt::Formatter<'_>) -> std::fmt::Result {
                self.0.fmt(f)
            }
        }
        impl Mer for $name {
            fn len(&self) -> usize {
                self.0.len()
            }
            fn is_empty(&self) -> bool {
                self.0.is_empty()
            }
            fn get(&self, pos: usize) -> u8 {
                self.0.get(pos)
            }
            fn set_mut(&mut self, pos: usize, val: u8) {
                self.0.set_mut(pos, val)
            }
            fn set_slice_mut(&mut self, pos: usize, nbases: usize, value: u64) {
                self.0.set_slice_mut(pos, nbases, value)
            }
            fn rc(&self) -> Self {
                $name(self.0.rc())
            }
        }
        impl Kmer for $name {
            fn empty() -> Self {
                $name(<$inner>::empty())
            }
            fn k() -> usize {
                <$inner>::k()
            }
            fn to_u64(&self) -> u64 {
                self.0.to_u64()
            }
            fn from_u64(value: u64) -> Self {
                $name(<$inner>::from_u64(value))
            }
            fn hamming_dist(&self, other: Self) -> u32 {
                self.0.hamming_dist(other.0)
            }
            fn extend_left(&self, v: u8) -> Self {
                $name(self.0.extend_left(v))
            }
            fn extend_right(&self, v: u8) -> Self {
                $name(self.0.extend_right(v))
            }
        }
    };
}

tracked_kmer!(T5, Kmer5);
tracked_kmer!(T8, Kmer8);
tracked_kmer!(T16, Kmer16);
tracked_kmer!(T32, Kmer32);

const POOL_SIZES: [usize; 6] = [1, 2, 3, 4, 8, 16];

fn pools() -> &'static Vec<ThreadPool> {
    static P: OnceLock<Vec<ThreadPool>> = OnceLock::new();
    P.get_or_init(|| {
        POOL_SIZES
            .iter()
            .map(|t| rayon::ThreadPoolBuilder::new().num_threads(*t).build().expect("rayon pool"))
            .collect()
    })
}

// ------------------------------------------------------------------------------------------------
// graph generation: cut sequences into overlapping nodes

fn make_nodes(k: usize, seqs: &[Seq], stranded: bool, seed: u64, dangling: bool) -> Vec<NodeV<u32>> {
    let mut st = seed;
    let mut out: Vec<NodeV<u32>> = Vec::new();
    let mut firsts: BTreeSet<Seq> = BTreeSet::new();
    let mut lasts: BTreeSet<Seq> = BTreeSet::new();
    for s in seqs {
        if s.len() < k {
            continue;
        }
        let m = s.len() - k;
        let mut a = 0usize;
        for i in 0..=m {
            let cut = i == m || splitmix(&mut st) % 3 == 0;
            if !cut {
                continue;
            }
            let b = i;
            let mut seq = s[a..b + k].to_vec();
            let mut left = if a == 0 { 0 } else { 1u8 << s[a - 1] };
            let mut right = if b == m { 0 } else { 1u8 << s[b + k] };
            if dangling && splitmix(&mut st) % 5 == 0 {
                right |= 1 << (splitmix(&mut st) % 4);
            }
            if dangling && splitmix(&mut st) % 7 == 0 {
                left |= 1 << (splitmix(&mut st) % 4);
            }
            let mut exts = left | (right << 4);
            if !stranded && splitmix(&mut st) % 2 == 0 {
                seq = rc(&seq);
                exts = model::ext_rc(exts);
            }
            a = i + 1;
            // a graph never holds the same terminal k-mer twice on one side (it would not be a valid index key set)
            let f = seq[..k].to_vec();
            let l = seq[seq.len() - k..].to_vec();
            if firsts.contains(&f) || lasts.contains(&l) {
                continue;
            }
            if !stranded && (lasts.contains(&rc(&f)) && false) {
                continue;
            }
            firsts.insert(f);
            lasts.insert(l);
            out.push(NodeV {
                seq,
                exts,
                data: out.len() as u32,
            });
        }
    }
    for i in (1..out.len()).rev() {
        let j = (splitmix(&mut st) % (i as u64 + 1)) as usize;
        out.swap(i, j);
    }
    out
}

fn base_of<K: Kmer>(nodes: &[NodeV<u32>], stranded: bool) -> BaseGraph<K, u32> {
    let mut g: BaseGraph<K, u32> = BaseGraph::new(stranded);
    for n in nodes {
        g.add(n.seq.iter(), Exts::new(n.exts), n.data);
    }
    g
}

/// All query answers of one build, in a canonical order.
#[derive(PartialEq, Eq, Debug)]
struct Answers {
    nodes: Vec<(Seq, u8, u32)>,
    edges: Vec<Vec<Link>>,
    links: Vec<Option<Link>>,
}

fn answers<K: Kmer>(g: &DebruijnGraph<K, u32>, probes: &[(Seq, u8)]) -> Answers {
    let mut nodes = Vec::with_capacity(g.len());
    let mut edges = Vec::with_capacity(2 * g.len());
    for i in 0..g.len() {
        let n = g.get_node(i);
        nodes.push((n.sequence().bytes(), n.exts().val, *n.data()));
        for d in [Dir::Left, Dir::Right] {
            edges.push(n.edges(d).into_iter().map(|e| (e.0, d2u(e.1), e.2)).collect());
        }
    }
    let links = probes
        .iter()
        .map(|(p, d)| g.find_link(K::from_bytes(p), u2d(*d)).map(|e| (e.0, d2u(e.1), e.2)))
        .collect();
    Answers { nodes, edges, links }
}

struct Report {
    nodes: usize,
    max_threads: usize,
    threads_by_pool: Vec<(usize, usize)>,
    absent: usize,
    builds: usize,
}

fn run_graph<K: Kmer + Send + Sync>(nodes: &[NodeV<u32>], stranded: bool, seed: u64, repeats: usize, all_pools: bool) -> Result<Report, String> {
    let k = K::k();
    let gm = GModel::new(nodes.to_vec(), k, stranded);
    // probes: every terminal k-mer, its reverse complement, a 1-mismatch neighbour, random k-mers (bounded for huge graphs)
    let mut st = seed ^ 0x77;
    let mut probes: Vec<(Seq, u8)> = Vec::new();
    let stride = (nodes.len() / 20000).max(1);
    for i in (0..nodes.len()).step_by(stride) {
        for side in [LEFT, RIGHT] {
            let t = gm.term(i, side).to_vec();
            let mut m = t.clone();
            let p = (splitmix(&mut st) % k as u64) as usize;
            m[p] = (m[p] + 1 + (splitmix(&mut st) % 3) as u8) % 4;
            for d in [LEFT, RIGHT] {
                probes.push((t.clone(), d));
                probes.push((rc(&t), d));
                probes.push((m.clone(), d));
            }
        }
    }
    for _ in 0..64 {
        let r = splitmix(&mut st);
        let r2 = splitmix(&mut st);
        let s: Seq = (0..k).map(|i| (((if i < 32 { r } else { r2 }) >> (2 * (i % 32))) & 3) as u8).collect();
        probes.push((s.clone(), LEFT));
        probes.push((s, RIGHT));
    }
    // model answers
    let mut absent = 0usize;
    let want_sets: Vec<Vec<Link>> = probes.iter().map(|(p, d)| gm.acceptable(p, *d)).collect();
    // serial build = reference
    let _guard = TRACK_LOCK.lock().unwrap_or_else(|e| e.into_inner());
    take_threads();
    let serial = base_of::<K>(nodes, stranded).finish_serial();
    let _ = take_threads();
    let reference = answers(&serial, &probes);
    // node ids and order as seen through the node iterators (whole pass, partial passes, adaptors)
    crate::props::c18::check_node_iters(&serial, seed, 2).map_err(|e| format!("finish_serial(): {}", e))?;
    if reference.nodes.len() != nodes.len() {
        return Err("serial build lost nodes".into());
    }
    for (i, n) in nodes.iter().enumerate() {
        if reference.nodes[i] != (n.seq.clone(), n.exts, n.data) {
            return Err(format!("serial build: node {} differs from what was added (ids/order must be preserved)", i));
        }
    }
    for (i, l) in reference.links.iter().enumerate() {
        match l {
            None => {
                absent += 1;
                if !want_sets[i].is_empty() {
                    return Err(format!(
                        "serial build: find_link({}, {}) = None but node {} starts/ends with it",
                        to_ascii(&probes[i].0),
                        probes[i].1,
                        want_sets[i][0].0
                    ));
                }
            }
            Some(x) => {
                if !want_sets[i].contains(x) {
                    return Err(format!(
                        "serial build: find_link({}, {}) = {:?} but no node end matches (valid: {:?})",
                        to_ascii(&probes[i].0),
                        probes[i].1,
                        x,
                        want_sets[i]
                    ));
                }
            }
        }
    }
    // edges of the reference against the model: every extension bit resolves iff the model has a landing
    for u in 0..nodes.len() {
        for dir in [LEFT, RIGHT] {
            let mut n_res = 0;
            for b in model::ext_bases(nodes[u].exts, dir) {
                if !gm.acceptable(&model::extend(gm.term(u, dir), dir, b), dir).is_empty() {
                    n_res += 1;
                }
            }
            if reference.edges[2 * u + dir as usize].len() != n_res {
                return Err(format!("serial build: node {} side {} reports {} edges, model resolves {}", u, dir, reference.edges[2 * u + dir as usize].len(), n_res));
            }
        }
    }
    let mut max_threads = 0;
    let mut by_pool = Vec::new();
    let mut builds = 1;
    let pool_ids: Vec<usize> = if all_pools { (0..POOL_SIZES.len()).collect() } else { vec![(seed % 6) as usize, ((seed >> 8) % 6) as usize] };
    for pi in pool_ids {
        let pool = &pools()[pi];
        let mut seen_threads = 0;
        for rep in 0..repeats {
            take_threads();
            let base = base_of::<K>(nodes, stranded);
            let g = pool.install(|| base.finish());
            let t = take_threads();
            seen_threads = seen_threads.max(t);
            builds += 1;
            crate::props::c18::check_node_iters(&g, seed ^ builds as u64, 1).map_err(|e| format!("finish(): {}", e))?;
            let a = answers(&g, &probes);
            if a != reference {
                // locate the first difference
                let what = if a.nodes != reference.nodes {
                    "node ids / order / extensions / payloads".to_string()
                } else if let Some(i) = (0..a.edges.len()).find(|i| a.edges[*i] != reference.edges[*i]) {
                    format!("edge list of node {} side {}: {:?} vs serial {:?}", i / 2, i % 2, a.edges[i], reference.edges[i])
                } else {
                    let i = (0..a.links.len()).find(|i| a.links[*i] != reference.links[*i]).unwrap();
                    format!(
                        "find_link({}, {}) = {:?} vs serial {:?}",
                        to_ascii(&probes[i].0),
                        probes[i].1,
                        a.links[i],
                        reference.links[i]
                    )
                };
                return Err(format!(
                    "finish() on a {}-thread pool (run {}) answers differently from finish_serial(): {}",
                    POOL_SIZES[pi], rep, what
                ));
            }
        }
        max_threads = max_threads.max(seen_threads);
        by_pool.push((POOL_SIZES[pi], seen_threads));
    }
    // and once on the global rayon pool (no explicit pool), which is how library users call finish()
    {
        take_threads();
        let g = base_of::<K>(nodes, stranded).finish();
        let t = take_threads();
        builds += 1;
        if answers(&g, &probes) != reference {
            return Err("finish() on the global rayon pool answers differently from finish_serial()".into());
        }
        by_pool.push((0, t));
        max_threads = max_threads.max(t);
    }
    Ok(Report {
        nodes: nodes.len(),
        max_threads,
        threads_by_pool: by_pool,
        absent,
        builds,
    })
}

#[derive(Debug, Clone, Serialize, Deserialize)]
pub struct Case {
    pub seqs: Vec<Seq>,
    pub stranded: bool,
    pub seed: u64,
    pub dangling: bool,
}

fn case_strategy(k: usize, env: &Env) -> BoxedStrategy<Case> {
    let maxlen = env.pick(6 * k + 120, 12 * k + 400);
    (
        proptest::collection::vec(crate::gen::dna(maxlen), 1..5),
        any::<bool>(),
        any::<u64>(),
        any::<bool>(),
    )
        .prop_map(|(seqs, stranded, seed, dangling)| Case {
            seqs,
            stranded,
            seed,
            dangling,
        })
        .boxed()
}

fn check<K: Kmer + Send + Sync>(c: &Case) -> CheckResult {
    let nodes = make_nodes(K::k(), &c.seqs, c.stranded, c.seed, c.dangling);
    let r = run_graph::<K>(&nodes, c.stranded, c.seed, 2, false)?;
    Ok(Outcome::new(r.nodes >= 2 && r.absent >= 1)
        .label(r.max_threads >= 2, "hashing_threads>=2")
        .label(r.nodes >= 50, "nodes>=50")
        .label(c.stranded, "stranded")
        .label(c.dangling, "dangling_exts"))
}

fn big_job<K: Kmer + Send + Sync + 'static>(name: &'static str, size_class: &'static str, n_nodes: usize) -> Box<dyn Job> {
    let run = move |seed: u64| -> Result<Report, String> {
        let k = K::k();
        // one long pseudo-random sequence (plus a second one) cut into ~n_nodes nodes (expected node length k+2)
        let mut st = seed;
        let total = n_nodes * 3 + k;
        let mut r = 0u64;
        let s: Seq = (0..total)
            .map(|j| {
                if j % 32 == 0 {
                    r = splitmix(&mut st);
                }
                ((r >> (2 * (j % 32))) & 3) as u8
            })
            .collect();
        let nodes = make_nodes(k, &[s], seed & 1 == 0, seed, true);
        run_graph::<K>(&nodes, seed & 1 == 0, seed, 2, true)
    };
    let run2 = run.clone();
    EnumJob {
        // the job name carries a size class, not the node count, so that saved replays stay valid when sizes are retuned
        name: format!("large/{}/{}", name, size_class),
        run: Box::new(move |env: &Env, rep: &mut JobReport| {
            for round in 0..env.pick(1u64, 3u64) {
                let seed = env.job_seed("large") ^ round;
                match guarded(|| run(seed)) {
                    Ok(r) => {
                        rep.pass(
                            &Outcome::new(r.max_threads >= 2 && r.absent >= 1)
                                .label(r.max_threads >= 2, "hashing_threads>=2")
                                .label(r.nodes >= 100_000, "nodes>=1e5"),
                            seed,
                            || json!({"nodes": r.nodes, "builds": r.builds, "threads_by_pool": r.threads_by_pool, "absent_queries": r.absent}),
                        );
                        rep.extra.insert(format!("round{}_nodes", round), json!(r.nodes));
                        rep.extra.insert("requested_nodes".into(), json!(n_nodes));
                        rep.extra.insert(format!("round{}_hashing_threads_by_pool_size", round), json!(r.threads_by_pool));
                        rep.extra.insert(format!("round{}_builds_compared", round), json!(r.builds));
                    }
                    Err(m) => rep.fail(m, json!({"seed": seed.to_string(), "n_nodes": n_nodes})),
                }
            }
        }),
        replay: Box::new(move |case: &Value| {
            let c = case.get("case").unwrap_or(case);
            let seed: u64 = c.get("seed").and_then(|v| v.as_str()).and_then(|s| s.parse().ok()).ok_or("no seed")?;
            Ok(guarded(|| run2(seed)).map(|_| Outcome::new(true)))
        }),
    }
    .boxed()
}

fn small_job<K: Kmer + Send + Sync + 'static>(name: &'static str, q: u32, t: u32) -> Box<dyn Job> {
    let k = K::k();
    PropJob::new(format!("pools/{}", name), q, t, move |e: &Env| case_strategy(k, e), |c: &Case| check::<K>(c))
        .with_render(|c: &Case| json!({"seqs": c.seqs.iter().map(|s| to_ascii(s)).collect::<Vec<_>>(), "stranded": c.stranded}))
        .boxed()
}

#[cfg(not(fuzzing))]
pub fn jobs(env: &Env) -> Vec<Box<dyn Job>> {
    let mut out: Vec<Box<dyn Job>> = vec![
        big_job::<T32>("T32", "XL", env.pick(280_000, 600_000)),
        big_job::<T16>("T16", "L", env.pick(30_000, 100_000)),
        big_job::<T32>("T32", "M", 3_000),
    ];
    out.push(small_job::<T5>("T5", 150, 4000));
    out.push(small_job::<T8>("T8", 150, 4000));
    out.push(small_job::<T16>("T16", 150, 4000));
    out.push(small_job::<T32>("T32", 150, 4000));
    out
}
