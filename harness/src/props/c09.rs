//! C09 — graph re-compression and node censoring are exact.

use std::collections::{BTreeMap, BTreeSet};
use std::fmt::Debug;

use debruijn::compression::{compress_graph, CompressionSpec, SimpleCompress};
use debruijn::graph::{BaseGraph, DebruijnGraph};
use debruijn::{Dir, Exts, Kmer};
use proptest::prelude::*;
use serde::{Deserialize, Serialize};
use serde_json::json;

use crate::gmodel::{table_w, GModel};
use crate::model::{self, LEFT, RIGHT};
use crate::pipeline::{
    build_base, check_lossless, describe_partition_diff, nodes_of, nodes_of_base, parts_of, ColPay, Entry3, NodeV,
    PTable, PayKind, SumPay,
};
use crate::props::c03::check_edges;
use crate::props::gcase::{gcase, GCase};
use crate::runner::{CheckResult, Env, Job, Outcome, PropJob};
use crate::util::{canon, rc, splitmix, to_ascii, Seq};

pub const RULE: &str = "case = (read set -> compressed graph via a construction entry point) x input-graph shape (as compressed / one k-mer per node / constructive splitter cutting every node at generated points into K-1-overlapping sub-nodes, randomly reverse-complemented when unstranded, node order shuffled / BaseGraph::combine of model-sharded sub-assemblies / colour-compressed then re-compressed with an always-true join) x censor list (None, empty, generated subset given unsorted and with duplicates, all) x strandedness x reduction; oracle: surviving k-mers = k-mers of non-censored nodes, model table restricted and pruned to them, expected partition by union-find, payload = fold, every extension of the result resolves, adjacency set = table's, idempotence of re-compressing the result. Non-trivial = censor set non-empty and proper and at least one merge across a former node boundary (or, uncensored, at least one merge).";
pub const TECHNIQUE: &str = "seeded proptest with a constructive graph splitter; union-find partition model on the surviving k-mers; metamorphic idempotence";

#[derive(Debug, Clone, Serialize, Deserialize)]
pub struct RCase {
    pub g: GCase,
    /// 0 = as compressed, 1 = one k-mer per node, 2 = random cuts, 3 = combine of shard graphs, 4 = colour then always-true
    pub shape: u8,
    /// 0 = None, 1 = Some(empty), 2 = subset, 3 = all
    pub censor_mode: u8,
    pub censor_seed: u64,
    pub cut_seed: u64,
}

fn rcase(k: usize, env: &Env) -> BoxedStrategy<RCase> {
    (
        gcase(k, env, false),
        prop_oneof![1 => Just(0u8), 2 => Just(1u8), 4 => Just(2u8), 2 => Just(3u8), 1 => Just(4u8)],
        prop_oneof![2 => Just(0u8), 1 => Just(1u8), 5 => Just(2u8), 1 => Just(3u8), 2 => Just(4u8)],
        any::<u64>(),
        any::<u64>(),
    )
        .prop_map(|(g, shape, censor_mode, censor_seed, cut_seed)| RCase {
            g,
            shape,
            censor_mode,
            censor_seed,
            cut_seed,
        })
        .boxed()
}

/// Cut the nodes of a compressed graph into sub-nodes (a valid, partially compressed graph).
pub fn split_nodes<P: PayKind>(
    nodes: &[NodeV<P>],
    table: &PTable<P>,
    k: usize,
    stranded: bool,
    cut_all: bool,
    seed: u64,
) -> Vec<NodeV<P>> {
    let mut st = seed;
    let mut out: Vec<NodeV<P>> = Vec::new();
    let density = 1 + splitmix(&mut st) % 4; // cut with probability 1/density
    for n in nodes {
        let m = n.seq.len() - k; // last window index
        let mut a = 0usize;
        for i in 0..=m {
            let cut_after = i == m || cut_all || splitmix(&mut st) % density == 0;
            if cut_after {
                let b = i;
                let seq = n.seq[a..b + k].to_vec();
                let left = if a == 0 { model::ext_side(n.exts, LEFT) } else { 1u8 << n.seq[a - 1] };
                let right = if b == m { model::ext_side(n.exts, RIGHT) } else { 1u8 << n.seq[b + k] };
                let pays: Vec<P> = (a..=b)
                    .map(|j| table[&canon(&n.seq[j..j + k], stranded)].1.clone())
                    .collect();
                let mut nv = NodeV {
                    seq,
                    exts: left | (right << 4),
                    data: P::fold(&pays),
                };
                if !stranded && splitmix(&mut st) % 3 == 0 {
                    nv.seq = rc(&nv.seq);
                    nv.exts = model::ext_rc(nv.exts);
                }
                out.push(nv);
                a = i + 1;
            }
        }
    }
    // shuffle node order
    for i in (1..out.len()).rev() {
        let j = (splitmix(&mut st) % (i as u64 + 1)) as usize;
        out.swap(i, j);
    }
    out
}

pub fn base_from_nodes<K: Kmer, P: Clone>(nodes: &[NodeV<P>], stranded: bool) -> BaseGraph<K, P> {
    let mut g: BaseGraph<K, P> = BaseGraph::new(stranded);
    for n in nodes {
        g.add(n.seq.iter(), Exts::new(n.exts), n.data.clone());
    }
    g
}

fn censor_list(n: usize, mode: u8, seed: u64) -> (Option<Vec<usize>>, BTreeSet<usize>) {
    let mut st = seed;
    match mode {
        0 => (None, BTreeSet::new()),
        1 => (Some(Vec::new()), BTreeSet::new()),
        3 => {
            let mut v: Vec<usize> = (0..n).collect();
            v.reverse();
            (Some(v), (0..n).collect())
        }
        _ => {
            let m = 2 + splitmix(&mut st) % 4;
            let mut v: Vec<usize> = (0..n).filter(|_| splitmix(&mut st) % m == 0).collect();
            // arbitrary order and duplicates are legitimate for a list of node ids
            if !v.is_empty() {
                let dup = v[(splitmix(&mut st) % v.len() as u64) as usize];
                if splitmix(&mut st) % 2 == 0 {
                    v.push(dup);
                }
                for i in (1..v.len()).rev() {
                    let j = (splitmix(&mut st) % (i as u64 + 1)) as usize;
                    v.swap(i, j);
                }
            }
            let set: BTreeSet<usize> = v.iter().cloned().collect();
            (Some(v), set)
        }
    }
}

/// Everything the result of a re-compression must satisfy, given the table of the surviving k-mers.
fn check_result<K: Kmer + Send + Sync, D: Clone + Debug + PartialEq, P: PayKind>(
    what: &str,
    res: &DebruijnGraph<K, D>,
    as_p: &dyn Fn(&D) -> P,
    surv: &PTable<P>,
    stranded: bool,
    join: &dyn Fn(&P, &P) -> bool,
) -> Result<(usize, Vec<Vec<Seq>>), String> {
    let k = K::k();
    let rn: Vec<NodeV<P>> = nodes_of(res)
        .into_iter()
        .map(|n| NodeV {
            seq: n.seq,
            exts: n.exts,
            data: as_p(&n.data),
        })
        .collect();
    if res.base.stranded != stranded {
        return Err(format!("{}: result graph has stranded = {}", what, res.base.stranded));
    }
    let pruned = model::prune_exts(surv, stranded);
    check_lossless(&rn, &pruned, k, stranded).map_err(|e| format!("{}: {}", what, e))?;
    let info = model::expected_partition(&pruned, stranded, join)?;
    let got = parts_of(&rn, k, stranded);
    if got != info.parts {
        return Err(format!(
            "{}: result partition differs from the maximal unbranched paths of the surviving adjacencies: {}",
            what,
            describe_partition_diff(&got, &info.parts)
        ));
    }
    // no extension left pointing at a removed or absent node; adjacency set exact
    let gm = GModel::new(rn.clone(), k, stranded);
    for (i, n) in rn.iter().enumerate() {
        for dir in [Dir::Left, Dir::Right] {
            let e = res.get_node(i).edges(dir).len();
            let bits = model::ext_count(n.exts, crate::gmodel::d2u(dir)) as usize;
            if e != bits {
                return Err(format!(
                    "{}: node {} has {} extension bits on side {:?} but {} resolve",
                    what, i, bits, dir, e
                ));
            }
        }
    }
    let rn_graph: Vec<NodeV<P>> = rn;
    let _ = &rn_graph;
    // edges / W_total through the real accessors
    {
        // check_edges needs P-typed payloads only for bookkeeping; rebuild a P-typed view graph is not possible
        // generically, so W_total is computed from the model view and the real edges() lists
        let mut w = gm.internal_w();
        for u in 0..gm.nodes.len() {
            for dir in [LEFT, RIGHT] {
                for b in model::ext_bases(gm.nodes[u].exts, dir) {
                    let acc = gm.acceptable(&model::extend(gm.term(u, dir), dir, b), dir);
                    if acc.is_empty() {
                        return Err(format!("{}: node {} side {} base {} does not resolve in the model", what, u, dir, b));
                    }
                    w.insert(canon(&model::kp1(gm.term(u, dir), dir, b), stranded));
                }
            }
        }
        let want = table_w(&pruned, stranded);
        if w != want {
            let lost: Vec<String> = want.difference(&w).take(3).map(|s| to_ascii(s)).collect();
            let inv: Vec<String> = w.difference(&want).take(3).map(|s| to_ascii(s)).collect();
            return Err(format!("{}: adjacency set lost {:?} invented {:?}", what, lost, inv));
        }
    }
    Ok((info.compressible_links, info.parts))
}

fn col_union(a: ColPay, b: &ColPay) -> ColPay {
    let mut s: BTreeSet<u8> = a.0.into_iter().collect();
    s.extend(b.0.iter().cloned());
    ColPay(s.into_iter().collect())
}

/// Payload kind used to state expectations for "colour sets reduced by union under an always-true join".
#[derive(Clone, Debug, PartialEq, Serialize, Deserialize)]
pub struct ColU(pub Vec<u8>);
impl PayKind for ColU {
    type Spec = SimpleCompress<ColU, fn(ColU, &ColU) -> ColU>;
    const NAME: &'static str = "colour-union";
    fn of(_key: &Seq, e: &model::Entry) -> Self {
        ColU(e.labels())
    }
    fn spec() -> Self::Spec {
        fn f(a: ColU, b: &ColU) -> ColU {
            let mut s: BTreeSet<u8> = a.0.into_iter().collect();
            s.extend(b.0.iter().cloned());
            ColU(s.into_iter().collect())
        }
        SimpleCompress::new(f as fn(ColU, &ColU) -> ColU)
    }
    fn join(_: &Self, _: &Self) -> bool {
        true
    }
    fn fold(parts: &[Self]) -> Self {
        let mut s: BTreeSet<u8> = BTreeSet::new();
        for p in parts {
            s.extend(p.0.iter().cloned());
        }
        ColU(s.into_iter().collect())
    }
}

pub fn check<K: Kmer + Send + Sync, P: PayKind>(c: &RCase) -> CheckResult {
    let k = K::k();
    let stranded = c.g.stranded;
    let reads = c.g.reads(k);

    if c.shape == 4 {
        // colour-compressed graph re-compressed under an always-true join with union reduction
        let (base, seen) = build_base::<K, ColPay>(&reads, stranded, c.g.min_count(), c.g.entry)?;
        let g1 = if c.cut_seed & 1 == 0 { base.finish() } else { base.finish_serial() };
        let n_before = g1.len();
        let spec2 = SimpleCompress::new(col_union as fn(ColPay, &ColPay) -> ColPay);
        let res = compress_graph(stranded, &spec2, g1, None);
        let surv: PTable<ColU> = seen.iter().map(|(s, (e, d))| (s.clone(), (*e, ColU(d.0.clone())))).collect();
        let (links, _) = check_result::<K, ColPay, ColU>(
            "colour -> always-true",
            &res,
            &|d: &ColPay| ColU(d.0.clone()),
            &surv,
            stranded,
            &|_, _| true,
        )?;
        return Ok(Outcome::new(res.len() < n_before && links > 0)
            .label(res.len() < n_before, "merge_across_colour_boundary")
            .label(true, "shape_colour_then_always_true")
            .label(stranded, "stranded"));
    }

    // input graph
    let (input_nodes, seen): (Vec<NodeV<P>>, PTable<P>) = if c.shape == 3 {
        // BaseGraph::combine of per-shard assemblies (extensions leave the shards)
        let nshards = 2 + (c.cut_seed % 3) as usize;
        let shards = model::shard_reads(&reads, k, stranded, nshards, c.cut_seed);
        let mut graphs = Vec::new();
        for sh in &shards {
            let (b, _) = build_base::<K, P>(sh, stranded, 1, Entry3::Hash)?;
            graphs.push(b);
        }
        let combined: BaseGraph<K, P> = BaseGraph::combine(graphs.into_iter());
        let mt = model::build_table(&reads, k, stranded);
        let seen: PTable<P> = crate::pipeline::ptable(&mt, 1);
        (nodes_of_base(&combined), seen)
    } else {
        let (base, seen) = build_base::<K, P>(&reads, stranded, c.g.min_count(), c.g.entry)?;
        let nodes = nodes_of_base(&base);
        let nodes = match c.shape {
            0 => nodes,
            1 => split_nodes(&nodes, &seen, k, stranded, true, c.cut_seed),
            _ => split_nodes(&nodes, &seen, k, stranded, false, c.cut_seed),
        };
        (nodes, seen)
    };
    let base_in: BaseGraph<K, P> = base_from_nodes(&input_nodes, stranded);
    let g_in = if c.cut_seed & 2 == 0 { base_in.finish() } else { base_in.finish_serial() };
    let n_in = g_in.len();
    let (censor, censored) = if c.censor_mode == 4 {
        // censor list produced by the crate's own tip finder (the way compress_graph is used for tip cleaning)
        let cleaner = debruijn::clean_graph::CleanGraph::new(|n: &debruijn::graph::Node<'_, K, P>| n.len() < 2 * k);
        let bad = cleaner.find_bad_nodes(&g_in);
        if bad.iter().any(|i| *i >= n_in) {
            return Err("find_bad_nodes returned an id outside the graph".into());
        }
        for i in &bad {
            let e = input_nodes[*i].exts;
            if (e & 0xf) != 0 && (e >> 4) != 0 {
                return Err(format!("find_bad_nodes reported node {} which has extensions on both sides", i));
            }
            if input_nodes[*i].seq.len() >= 2 * k {
                return Err(format!("find_bad_nodes reported node {} which fails the tip predicate", i));
            }
        }
        let set: BTreeSet<usize> = bad.iter().cloned().collect();
        (Some(bad), set)
    } else {
        censor_list(n_in, c.censor_mode, c.censor_seed)
    };

    // surviving k-mers
    let mut surv_keys: BTreeSet<Seq> = BTreeSet::new();
    for (i, n) in input_nodes.iter().enumerate() {
        if !censored.contains(&i) {
            for j in 0..=n.seq.len() - k {
                surv_keys.insert(canon(&n.seq[j..j + k], stranded));
            }
        }
    }
    let surv: PTable<P> = seen.iter().filter(|(s, _)| surv_keys.contains(*s)).map(|(s, v)| (s.clone(), v.clone())).collect();
    if surv.len() != surv_keys.len() {
        return Err("harness: input graph contains k-mers outside the table".into());
    }

    let spec = P::spec();
    let res = compress_graph(stranded, &spec, g_in, censor.clone());
    let (links, parts) = check_result::<K, P, P>("compress_graph", &res, &|d: &P| d.clone(), &surv, stranded, &|a, b| P::join(a, b))?;
    // real accessors agree with the model view (edges, symmetry)
    let gm = GModel::of_graph(&res);
    check_edges(&res, &gm)?;

    // idempotence: re-compressing the result changes nothing but order/orientation
    let n_res = res.len();
    let res2 = compress_graph(stranded, &spec, res, None);
    if res2.len() != n_res {
        return Err(format!("re-compressing a compressed graph changed the node count {} -> {}", n_res, res2.len()));
    }
    let parts2 = parts_of(&nodes_of(&res2), k, stranded);
    if parts2 != parts {
        return Err(format!(
            "re-compressing a compressed graph changed the partition: {}",
            describe_partition_diff(&parts2, &parts)
        ));
    }
    check_result::<K, P, P>("second compress_graph", &res2, &|d: &P| d.clone(), &surv, stranded, &|a, b| P::join(a, b))?;

    // did a merge cross a former node boundary?
    let in_parts: BTreeSet<Vec<Seq>> = parts_of(
        &input_nodes
            .iter()
            .enumerate()
            .filter(|(i, _)| !censored.contains(i))
            .map(|(_, n)| n.clone())
            .collect::<Vec<_>>(),
        k,
        stranded,
    )
    .into_iter()
    .collect();
    let merged = parts.iter().any(|p| !in_parts.contains(p));
    let proper = !censored.is_empty() && censored.len() < n_in;
    let nontrivial = if c.censor_mode == 2 || c.censor_mode == 4 { proper && merged } else { merged };
    let unsorted = censor
        .as_ref()
        .map(|v| v.windows(2).any(|w| w[0] >= w[1]))
        .unwrap_or(false);
    Ok(Outcome::new(nontrivial)
        .label(merged, "merge_across_former_boundary")
        .label(proper, "censor_proper_subset")
        .label(unsorted, "censor_list_unsorted_or_dup")
        .label(c.censor_mode == 3, "censor_all")
        .label(c.censor_mode == 4 && !censored.is_empty(), "censor_from_tip_finder")
        .label(c.shape == 1, "shape_one_kmer_per_node")
        .label(c.shape == 2, "shape_random_cuts")
        .label(c.shape == 3, "shape_combine_shards")
        .label(c.shape == 0, "shape_already_compressed")
        .label(links > 0, "has_compressible_link")
        .label(stranded, "stranded"))
}

fn build<K: Kmer + Send + Sync + 'static>(name: &'static str, _env: &Env) -> Vec<Box<dyn Job>> {
    let k = K::k();
    let small = k <= 8;
    let (q, t) = if small { (400, 15000) } else { (120, 4000) };
    let mk = |pay: &'static str, f: fn(&RCase) -> CheckResult| -> Box<dyn Job> {
        PropJob::new(
            format!("recompress/{}/{}", name, pay),
            q,
            t,
            move |e: &Env| rcase(k, e),
            f,
        )
        .with_render(move |c: &RCase| json!({"reads": c.g.rs.render(k), "stranded": c.g.stranded}))
        .boxed()
    };
    vec![mk(SumPay::NAME, check::<K, SumPay>), mk(ColPay::NAME, check::<K, ColPay>)]
}

#[cfg(not(fuzzing))]
pub fn jobs(env: &Env) -> Vec<Box<dyn Job>> {
    let mut out: Vec<Box<dyn Job>> = Vec::new();
    crate::kmers_ge4!(build, out, env);
    out
}

#[allow(dead_code)]
fn _unused(_: BTreeMap<u8, u8>, _: &dyn CompressionSpec<u8>) {}
