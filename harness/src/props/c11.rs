//! C11 — k-mer equality, order and hash are those of the string.

use std::collections::hash_map::DefaultHasher;
use std::collections::{BTreeSet, HashSet};
use std::hash::{Hash, Hasher};

use boomphf::hashmap::BoomHashMap;
use debruijn::dna_string::DnaString;
use debruijn::vmer::Lmer;
use debruijn::{Kmer, Mer, MerImmut, Vmer};
use proptest::prelude::*;
use serde::{Deserialize, Serialize};
use serde_json::json;

use crate::gen;
use crate::ktypes::kseq;
use crate::props::c10::{digits, rank};
use crate::runner::{CheckResult, Env, Job, Outcome, PropJob};
use crate::util::{pack_top, rc, to_ascii, Seq};

pub const RULE: &str = "case = two operation histories (0..40 ops each) over one k-mer type: extend_left/right(b), rc, set_mut / set, set_slice_mut / set_slice (pos,n,packed word with arbitrary garbage in the unused low bits), min_rc, min_rc_flip, re-seed via from_bytes / from_ascii / from_u64(rank), get_kmer out of a DnaString / Lmer / DnaStringSlice holding the model string at an offset. After EVERY step the k-mer must be ==, cmp-Equal and hash-equal (std DefaultHasher and a byte-recording hasher) to the k-mers built from the model string by three independent routes (from_bytes, from_ascii, base-by-base extend_right from empty); the two histories' k-mers compare exactly as their strings do; and sort / dedup / binary_search / consecutive grouping / HashSet / BoomHashMap lookups over all intermediate k-mers agree with the same operations on the strings. Non-trivial = a history has >= 3 ops of >= 2 kinds and the type is partial-width or the history changes the value.";
pub const TECHNIQUE: &str = "seeded proptest over stateful operation histories (vec of ops + interpreter) against a Vec<u8> model; multi-route Eq/Ord/Hash agreement";

#[derive(Debug, Clone, Serialize, Deserialize)]
pub enum Op {
    ExtL(u8),
    ExtR(u8),
    Rc,
    Set(u16, u8),
    SetSlice(u16, u16, Vec<u8>, u64),
    MinRc,
    MinRcFlip,
    FromBytes(Seq),
    FromAscii(Seq),
    FromRank(Seq),
    /// extract from a container holding (prefix garbage + model) : 0 DnaString, 1 Lmer, 2 slice, 3 rc slice
    Extract(u8, u8),
}

#[derive(Debug, Clone, Serialize, Deserialize)]
pub struct Case {
    pub start: Seq,
    pub h1: Vec<Op>,
    pub h2: Vec<Op>,
}

fn op_strategy(k: usize) -> BoxedStrategy<Op> {
    prop_oneof![
        4 => (0u8..4).prop_map(Op::ExtL),
        4 => (0u8..4).prop_map(Op::ExtR),
        3 => Just(Op::Rc),
        3 => (any::<u16>(), 0u8..4).prop_map(|(p, b)| Op::Set(p, b)),
        4 => (any::<u16>(), any::<u16>(), proptest::collection::vec(0u8..4, 32), prop_oneof![Just(u64::MAX), any::<u64>(), Just(0u64)])
            .prop_map(|(p, n, b, g)| Op::SetSlice(p, n, b, g)),
        2 => Just(Op::MinRc),
        2 => Just(Op::MinRcFlip),
        1 => gen::kmer_seq(k).prop_map(Op::FromBytes),
        1 => gen::kmer_seq(k).prop_map(Op::FromAscii),
        1 => gen::kmer_seq(k).prop_map(Op::FromRank),
        3 => (0u8..4, 0u8..70).prop_map(|(c, off)| Op::Extract(c, off)),
    ]
    .boxed()
}

fn case_strategy(k: usize, env: &Env) -> BoxedStrategy<Case> {
    let n = env.pick(25usize, 40usize);
    (
        gen::kmer_seq(k),
        proptest::collection::vec(op_strategy(k), 0..=n),
        proptest::collection::vec(op_strategy(k), 0..=n),
    )
        .prop_map(|(start, h1, h2)| Case { start, h1, h2 })
        .boxed()
}

/// Hasher that records every byte written (so "hashes equal" is not left to 64-bit luck).
#[derive(Default)]
struct Recorder(Vec<u8>);
impl Hasher for Recorder {
    fn finish(&self) -> u64 {
        0
    }
    fn write(&mut self, bytes: &[u8]) {
        self.0.extend_from_slice(bytes);
    }
}

fn hash_pair<K: Kmer>(k: &K) -> (u64, Vec<u8>) {
    let mut d = DefaultHasher::new();
    k.hash(&mut d);
    let mut r = Recorder::default();
    k.hash(&mut r);
    (d.finish(), r.0)
}

fn routes<K: Kmer>(s: &[u8]) -> Vec<(&'static str, K)> {
    let asc = to_ascii(s);
    let mut pushed = K::empty();
    for b in s {
        pushed = pushed.extend_right(*b);
    }
    let mut pushed_l = K::empty();
    for b in s.iter().rev() {
        pushed_l = pushed_l.extend_left(*b);
    }
    vec![
        ("from_bytes", K::from_bytes(s)),
        ("from_ascii", K::from_ascii(asc.as_bytes())),
        ("extend_right from empty", pushed),
        ("extend_left from empty", pushed_l),
        ("rc of from_bytes(rc)", K::from_bytes(&rc(s)).rc()),
    ]
}

fn agree<K: Kmer>(what: &str, k: K, s: &[u8]) -> Result<(), String> {
    let got = kseq(&k);
    if got != s {
        return Err(format!("{}: spells {} but the model string is {}", what, to_ascii(&got), to_ascii(s)));
    }
    let hk = hash_pair(&k);
    for (rname, r) in routes::<K>(s) {
        if k != r || !(k == r) {
            return Err(format!(
                "{}: k-mer spelling {} is not == to the same string built by {} (storage bits outside the used lanes?)",
                what,
                to_ascii(s),
                rname
            ));
        }
        if k.cmp(&r) != std::cmp::Ordering::Equal || k.partial_cmp(&r) != Some(std::cmp::Ordering::Equal) {
            return Err(format!("{}: cmp with the same string built by {} is not Equal", what, rname));
        }
        if hash_pair(&r) != hk {
            return Err(format!("{}: Hash differs from the same string built by {}", what, rname));
        }
    }
    Ok(())
}

fn extract<K: Kmer>(container: u8, off: u8, s: &[u8]) -> K {
    let off = off as usize;
    let mut backing: Seq = (0..off).map(|i| ((i * 3 + 2) % 4) as u8).collect();
    backing.extend_from_slice(s);
    backing.extend_from_slice(&[1, 2, 3, 0, 2]);
    match container {
        1 if backing.len() <= 188 => Lmer::<[u64; 6]>::from_slice(&backing).get_kmer(off),
        2 => {
            let d = DnaString::from_bytes(&backing);
            let sl = d.slice(off.saturating_sub(1).min(off), backing.len());
            sl.get_kmer(off - off.saturating_sub(1).min(off))
        }
        3 => {
            // stored reverse-complemented, read through rc()
            let rb = rc(&backing);
            let d = DnaString::from_bytes(&rb);
            let sl = d.slice(0, rb.len()).rc();
            sl.get_kmer(off)
        }
        _ => DnaString::from_bytes(&backing).get_kmer(off),
    }
}

/// Run one history; returns all intermediate (k-mer, string) pairs.
fn run_history<K: Kmer>(start: &[u8], ops: &[Op]) -> Result<Vec<(K, Seq)>, String> {
    let k = K::k();
    let mut s = start.to_vec();
    let mut km = K::from_bytes(&s);
    let mut out = vec![(km, s.clone())];
    agree("start", km, &s)?;
    for (i, op) in ops.iter().enumerate() {
        match op {
            Op::ExtL(b) => {
                km = km.extend_left(*b);
                s.insert(0, *b);
                s.pop();
            }
            Op::ExtR(b) => {
                km = km.extend_right(*b);
                s.remove(0);
                s.push(*b);
            }
            Op::Rc => {
                km = km.rc();
                s = rc(&s);
            }
            Op::Set(p, b) => {
                let pos = crate::util::idx(*p, k);
                if *p & 1 == 0 {
                    km.set_mut(pos, *b);
                } else {
                    // non-mutating interface
                    km = km.set(pos, *b);
                }
                s[pos] = *b;
            }
            Op::SetSlice(p, n, bases, garbage) => {
                let pos = crate::util::idx(*p, k);
                let n = 1 + crate::util::idx(*n, (k - pos).min(32));
                if *garbage & 1 == 0 {
                    km.set_slice_mut(pos, n, pack_top(&bases[..n], *garbage));
                } else {
                    km = km.set_slice(pos, n, pack_top(&bases[..n], *garbage));
                }
                s[pos..pos + n].copy_from_slice(&bases[..n]);
            }
            Op::MinRc => {
                km = km.min_rc();
                let r = rc(&s);
                if r < s {
                    s = r;
                }
            }
            Op::MinRcFlip => {
                km = km.min_rc_flip().0;
                let r = rc(&s);
                if r < s {
                    s = r;
                }
            }
            Op::FromBytes(t) => {
                km = K::from_bytes(t);
                s = t.clone();
            }
            Op::FromAscii(t) => {
                let a: Vec<u8> = to_ascii(t).bytes().enumerate().map(|(i, c)| if i % 2 == 1 { c.to_ascii_lowercase() } else { c }).collect();
                km = K::from_ascii(&a);
                s = t.clone();
            }
            Op::FromRank(t) => {
                if k <= 32 {
                    km = K::from_u64(rank(t));
                    s = t.clone();
                } else {
                    let r = rank(&t[k - 32..]);
                    km = K::from_u64(r);
                    s = vec![0u8; k - 32];
                    s.extend(digits(r, 32));
                }
            }
            Op::Extract(c, off) => {
                // the value is unchanged; it is re-obtained from a container holding the model string
                km = extract::<K>(*c, *off, &s);
            }
        }
        agree(&format!("after op {} ({:?})", i, op), km, &s)?;
        out.push((km, s.clone()));
    }
    Ok(out)
}

pub fn check<K: Kmer + Send + Sync>(c: &Case) -> CheckResult {
    let a = run_history::<K>(&c.start, &c.h1)?;
    let b = run_history::<K>(&c.start, &c.h2)?;
    // pairwise comparisons across the two histories
    for (i, (ka, sa)) in a.iter().enumerate() {
        let (kb, sb) = &b[(i * 7 + 3) % b.len()];
        if (ka == kb) != (sa == sb) {
            return Err(format!("== of {} and {} is {}", to_ascii(sa), to_ascii(sb), ka == kb));
        }
        if ka.cmp(kb) != sa.cmp(sb) {
            return Err(format!("cmp({}, {}) = {:?}, strings compare {:?}", to_ascii(sa), to_ascii(sb), ka.cmp(kb), sa.cmp(sb)));
        }
        if sa == sb && hash_pair(ka) != hash_pair(kb) {
            return Err(format!("equal strings {} hash differently", to_ascii(sa)));
        }
    }
    // collections
    let all: Vec<(K, Seq)> = a.iter().chain(b.iter()).cloned().collect();
    let mut ks: Vec<K> = all.iter().map(|x| x.0).collect();
    let mut ss: Vec<Seq> = all.iter().map(|x| x.1.clone()).collect();
    // consecutive grouping (group_by semantics) before sorting
    let runs = |eq: &dyn Fn(usize, usize) -> bool, n: usize| -> Vec<usize> {
        let mut r = Vec::new();
        let mut i = 0;
        while i < n {
            let mut j = i + 1;
            while j < n && eq(i, j) {
                j += 1;
            }
            r.push(j - i);
            i = j;
        }
        r
    };
    if runs(&|i, j| ks[i] == ks[j], ks.len()) != runs(&|i, j| ss[i] == ss[j], ss.len()) {
        return Err("grouping consecutive equal k-mers differs from grouping the strings".into());
    }
    ks.sort();
    ss.sort();
    if ks.iter().map(|k| kseq(k)).collect::<Vec<_>>() != ss {
        return Err("sorting the k-mers gives a different order than sorting the strings".into());
    }
    let mut ku = ks.clone();
    ku.dedup();
    let mut su = ss.clone();
    su.dedup();
    if ku.len() != su.len() {
        return Err(format!("dedup leaves {} k-mers but {} distinct strings", ku.len(), su.len()));
    }
    let hs: HashSet<K> = all.iter().map(|x| x.0).collect();
    let bs: BTreeSet<&Seq> = all.iter().map(|x| &x.1).collect();
    if hs.len() != bs.len() {
        return Err(format!("HashSet holds {} k-mers but there are {} distinct strings", hs.len(), bs.len()));
    }
    // lookups with a k-mer built by an independent route
    let index = BoomHashMap::new(ku.clone(), (0..ku.len() as u32).collect::<Vec<u32>>());
    for (i, s) in su.iter().enumerate() {
        let probe = K::from_ascii(to_ascii(s).as_bytes());
        match ku.binary_search(&probe) {
            Ok(p) if p == i => {}
            other => return Err(format!("binary_search for {} gives {:?}, want Ok({})", to_ascii(s), other, i)),
        }
        if !hs.contains(&probe) {
            return Err(format!("HashSet lookup misses {}", to_ascii(s)));
        }
        match index.get(&probe) {
            Some(v) if *v as usize == i => {}
            other => return Err(format!("perfect-hash lookup for {} gives {:?}, want {}", to_ascii(s), other, i)),
        }
    }
    // an absent string must not be found
    let mut absent = c.start.clone();
    for t in 0..4u8 {
        absent[0] = t;
        if !bs.contains(&absent) {
            let probe = K::from_bytes(&absent);
            if hs.contains(&probe) || ku.binary_search(&probe).is_ok() || index.get(&probe).is_some() {
                return Err(format!("lookup finds {} which is not in the collection", to_ascii(&absent)));
            }
            break;
        }
    }
    let kinds = |h: &Vec<Op>| -> usize {
        let s: HashSet<std::mem::Discriminant<Op>> = h.iter().map(std::mem::discriminant).collect();
        s.len()
    };
    let k = K::k();
    let partial = std::mem::size_of::<K>() * 4 != k;
    let changed = a.last().map(|x| x.1 != c.start).unwrap_or(false);
    let rich = (c.h1.len() >= 3 && kinds(&c.h1) >= 2) || (c.h2.len() >= 3 && kinds(&c.h2) >= 2);
    Ok(Outcome::new(rich && (partial || changed))
        .label(partial, "partial_width_type")
        .label(c.h1.iter().chain(c.h2.iter()).any(|o| matches!(o, Op::SetSlice(..))), "has_packed_set")
        .label(c.h1.iter().chain(c.h2.iter()).any(|o| matches!(o, Op::Extract(..))), "has_container_extract")
        .label(su.len() < ss.len(), "duplicates_in_collection")
        .label(c.h1.len() + c.h2.len() >= 30, "ops>=30"))
}

fn build<K: Kmer + Send + Sync + 'static>(name: &'static str, _env: &Env) -> Vec<Box<dyn Job>> {
    let k = K::k();
    vec![PropJob::new(
        format!("history/{}", name),
        600,
        20000,
        move |e: &Env| case_strategy(k, e),
        |c: &Case| check::<K>(c),
    )
    .with_render(|c: &Case| json!({"start": to_ascii(&c.start), "ops": [c.h1.len(), c.h2.len()]}))
    .boxed()]
}

#[cfg(not(fuzzing))]
pub fn jobs(env: &Env) -> Vec<Box<dyn Job>> {
    let mut out: Vec<Box<dyn Job>> = Vec::new();
    crate::kmers_all!(build, out, env);
    out
}
