//! One module per property: case types, generators specific to it, check functions and labels.

use crate::runner::{Env, Job};

pub mod c01;
pub mod c02;
pub mod c03;
pub mod c04;
pub mod c05;
pub mod c06;
pub mod c07;
pub mod c08;
pub mod c09;
pub mod c10;
pub mod c11;
pub mod c12;
pub mod c13;
pub mod c14;
pub mod c15;
pub mod c16;
pub mod c17;
pub mod c18;
pub mod c19;
pub mod c20;
pub mod gcase;

pub struct Meta {
    pub rule: &'static str,
    pub technique: &'static str,
    pub assumptions: Vec<&'static str>,
}

const IDS: &[&str] = &["C01", "C02", "C03", "C04", "C05", "C06", "C07", "C08", "C09", "C10", "C11", "C12", "C13", "C14", "C15", "C16", "C17", "C18", "C19", "C20"];

/// Per-property multiplier applied to every job's case counts (both tiers), chosen from measured
/// per-case costs so that the quick tier does roughly 10-30 s of fixed work on 16 cores.
pub fn mult(id: &str) -> f64 {
    match id {
        "C01" => 100.0,
        "C02" => 60.0,
        "C03" => 80.0,
        "C04" => 40.0,
        "C05" => 100.0,
        "C06" => 40.0,
        "C07" => 200.0,
        "C08" => 300.0,
        "C09" => 30.0,
        "C10" => 60.0,
        "C11" => 80.0,
        "C12" => 100.0,
        "C13" => 100.0,
        "C14" => 80.0,
        "C15" => 100.0,
        "C16" => 100.0,
        "C17" => 20.0,
        "C18" => 20.0,
        "C19" => 5.0,
        "C20" => 40.0,
        _ => 1.0,
    }
}

pub fn all_ids() -> Vec<&'static str> {
    IDS.to_vec()
}

#[cfg(fuzzing)]
pub fn jobs(_id: &str, _env: &Env) -> Vec<Box<dyn Job>> {
    Vec::new()
}

#[cfg(not(fuzzing))]
pub fn jobs(id: &str, env: &Env) -> Vec<Box<dyn Job>> {
    match id {
        "C01" => c01::jobs(env),
        "C02" => c02::jobs(env),
        "C03" => c03::jobs(env),
        "C04" => c04::jobs(env),
        "C05" => c05::jobs(env),
        "C06" => c06::jobs(env),
        "C07" => c07::jobs(env),
        "C08" => c08::jobs(env),
        "C09" => c09::jobs(env),
        "C10" => c10::jobs(env),
        "C11" => c11::jobs(env),
        "C12" => c12::jobs(env),
        "C13" => c13::jobs(env),
        "C14" => c14::jobs(env),
        "C15" => c15::jobs(env),
        "C16" => c16::jobs(env),
        "C17" => c17::jobs(env),
        "C18" => c18::jobs(env),
        "C19" => c19::jobs(env),
        "C20" => c20::jobs(env),
        _ => Vec::new(),
    }
}

const COMMON_ASSUMPTIONS: &[&str] = &[
    "generated inputs only: absence of violations outside the generated region is not established",
    "the harness reads results through the crate's public accessors (get/len/bytes), which are themselves checked against the string model in C10/C14/C15",
    "reference models are plain Vec<u8> code in harness/src/model and harness/src/util.rs and never call the code under test",
];

pub fn meta(id: &str) -> Meta {
    let (rule, technique): (&'static str, &'static str) = match id {
        "C01" => (c01::RULE, c01::TECHNIQUE),
        "C02" => (c02::RULE, c02::TECHNIQUE),
        "C03" => (c03::RULE, c03::TECHNIQUE),
        "C04" => (c04::RULE, c04::TECHNIQUE),
        "C05" => (c05::RULE, c05::TECHNIQUE),
        "C06" => (c06::RULE, c06::TECHNIQUE),
        "C07" => (c07::RULE, c07::TECHNIQUE),
        "C08" => (c08::RULE, c08::TECHNIQUE),
        "C09" => (c09::RULE, c09::TECHNIQUE),
        "C10" => (c10::RULE, c10::TECHNIQUE),
        "C11" => (c11::RULE, c11::TECHNIQUE),
        "C12" => (c12::RULE, c12::TECHNIQUE),
        "C13" => (c13::RULE, c13::TECHNIQUE),
        "C14" => (c14::RULE, c14::TECHNIQUE),
        "C15" => (c15::RULE, c15::TECHNIQUE),
        "C16" => (c16::RULE, c16::TECHNIQUE),
        "C17" => (c17::RULE, c17::TECHNIQUE),
        "C18" => (c18::RULE, c18::TECHNIQUE),
        "C19" => (c19::RULE, c19::TECHNIQUE),
        "C20" => (c20::RULE, c20::TECHNIQUE),
        _ => ("", ""),
    };
    Meta {
        rule,
        technique,
        assumptions: COMMON_ASSUMPTIONS.to_vec(),
    }
}
