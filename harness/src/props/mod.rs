//! One module per property: case types, generators specific to it, check functions and labels.

use crate::runner::{Env, Job};

pub mod c01;
pub mod c02;
pub mod c03;
pub mod c04;
pub mod c05;
pub mod c06;
pub mod c07;
pub mod c08;
pub mod c09;
pub mod c10;
pub mod gcase;

pub struct Meta {
    pub rule: &'static str,
    pub technique: &'static str,
    pub assumptions: Vec<&'static str>,
}

const IDS: &[&str] = &["C01", "C02", "C03", "C04", "C05", "C06", "C07", "C08", "C09", "C10"];

pub fn all_ids() -> Vec<&'static str> {
    IDS.to_vec()
}

pub fn jobs(id: &str, env: &Env) -> Vec<Box<dyn Job>> {
    match id {
        "C01" => c01::jobs(env),
        "C02" => c02::jobs(env),
        "C03" => c03::jobs(env),
        "C04" => c04::jobs(env),
        "C05" => c05::jobs(env),
        "C06" => c06::jobs(env),
        "C07" => c07::jobs(env),
        "C08" => c08::jobs(env),
        "C09" => c09::jobs(env),
        "C10" => c10::jobs(env),
        _ => Vec::new(),
    }
}

const COMMON_ASSUMPTIONS: &[&str] = &[
    "generated inputs only: absence of violations outside the generated region is not established",
    "the harness reads results through the crate's public accessors (get/len/bytes), which are themselves checked against the string model in C10/C14/C15",
    "reference models are plain Vec<u8> code in harness/src/model and harness/src/util.rs and never call the code under test",
];

pub fn meta(id: &str) -> Meta {
    let (rule, technique): (&'static str, &'static str) = match id {
        "C01" => (c01::RULE, c01::TECHNIQUE),
        "C02" => (c02::RULE, c02::TECHNIQUE),
        "C03" => (c03::RULE, c03::TECHNIQUE),
        "C04" => (c04::RULE, c04::TECHNIQUE),
        "C05" => (c05::RULE, c05::TECHNIQUE),
        "C06" => (c06::RULE, c06::TECHNIQUE),
        "C07" => (c07::RULE, c07::TECHNIQUE),
        "C08" => (c08::RULE, c08::TECHNIQUE),
        "C09" => (c09::RULE, c09::TECHNIQUE),
        "C10" => (c10::RULE, c10::TECHNIQUE),
        _ => ("", ""),
    };
    Meta {
        rule,
        technique,
        assumptions: COMMON_ASSUMPTIONS.to_vec(),
    }
}
