//! C12 — reverse complement is coherent across all sequence types.

use debruijn::dna_string::DnaString;
use debruijn::vmer::Lmer;
use debruijn::{Dir, Exts, Kmer, Mer, Vmer};
use proptest::prelude::*;
use serde::{Deserialize, Serialize};
use serde_json::{json, Value};

use crate::gen;
use crate::ktypes::kseq;
use crate::model;
use crate::props::c10::{digits, expect};
use crate::props::c13::{check_container, seq_strategy};
use crate::runner::{guarded, CheckResult, EnumJob, Env, Job, JobReport, Outcome, PropJob};
use crate::util::{is_pal, rc, to_ascii, Seq};

pub const RULE: &str = "k-mers: all 4^K values for K<=8 (exhaustive) and generated values biased to palindromes / near-palindromes / homopolymers for all 20 types: rc is the string reverse complement, an involution, min_rc is the string minimum and equal for both strands, min_rc_flip's flag tells whether the result is the reverse complement, is_palindrome <=> string equals its reverse complement. Extension sets: all 256 values (exhaustive) against a set model for complement/reverse/rc. Containers: sequences of length 0..~200 biased to 0,1,31,32,33,63,64,65 in DnaString, Lmer of 1..6 words, forward/rc/nested DnaStringSlice: rc(x)[i] = 3 - x[n-1-i], involution, cross-container agreement, view == view.rc() exactly when the sequence is its own reverse complement (S+rc(S) windows inside longer strings), slicing of reverse-complemented views, and every k-mer accessor of the reverse-complemented container equals the k-mers of the reverse-complemented plain string (all K types). Non-trivial = value is not a homopolymer / sequence length >= 2.";
pub const TECHNIQUE: &str = "exhaustive enumeration (256 extension sets, K<=8 k-mers) + seeded proptest; algebraic laws and string model";

/// All rc-related laws for one k-mer value.
pub fn chk_kmer_rc<K: Kmer>(s: &[u8]) -> Result<(), String> {
    let km = K::from_bytes(s);
    let r = rc(s);
    let krc = km.rc();
    expect("rc", krc, &r)?;
    expect("rc(rc)", krc.rc(), s)?;
    if krc.rc() != km {
        return Err("rc is not an involution under ==".into());
    }
    let smin: Seq = if r.as_slice() < s { r.clone() } else { s.to_vec() };
    expect("min_rc", km.min_rc(), &smin)?;
    expect("min_rc of the reverse complement", krc.min_rc(), &smin)?;
    if km.min_rc() != krc.min_rc() {
        return Err("min_rc differs between a k-mer and its reverse complement".into());
    }
    let (m, flip) = km.min_rc_flip();
    expect("min_rc_flip.0", m, &smin)?;
    let pal = r == s;
    if !pal {
        let want_flip = r.as_slice() < s;
        if flip != want_flip {
            return Err(format!(
                "min_rc_flip({}) reports flip = {} but the result {} the reverse complement",
                to_ascii(s),
                flip,
                if want_flip { "is" } else { "is not" }
            ));
        }
    }
    if km.is_palindrome() != pal {
        return Err(format!(
            "is_palindrome({}) = {} but the string {} its reverse complement",
            to_ascii(s),
            km.is_palindrome(),
            if pal { "equals" } else { "differs from" }
        ));
    }
    // ordering consistency between the two strands
    let ord = km.cmp(&krc);
    if ord != s.cmp(&r[..]) {
        return Err("cmp(k, rc k) disagrees with the string order".into());
    }
    Ok(())
}

fn exhaustive_kmer<K: Kmer + 'static>(name: &'static str, _env: &Env) -> Vec<Box<dyn Job>> {
    let k = K::k();
    if k > 8 {
        return Vec::new();
    }
    let total = 1u64 << (2 * k);
    vec![EnumJob {
        name: format!("exhaustive_kmer_rc/{}", name),
        run: Box::new(move |_e: &Env, rep: &mut JobReport| {
            for v in 0..total {
                let s = digits(v, k);
                match guarded(|| chk_kmer_rc::<K>(&s)) {
                    Ok(()) => rep.pass(&Outcome::new(s.iter().any(|b| *b != s[0])).label(is_pal(&s), "palindrome"), v, || {
                        json!({"type": name, "value": to_ascii(&s)})
                    }),
                    Err(m) => rep.fail(m, json!({"v": v, "value": to_ascii(&s)})),
                }
            }
            rep.exhaustive = true;
            rep.extra.insert("values_enumerated".into(), json!(total));
        }),
        replay: Box::new(move |case: &Value| {
            let v = case.get("case").unwrap_or(case).get("v").and_then(|v| v.as_u64()).ok_or("no v")?;
            Ok(guarded(|| chk_kmer_rc::<K>(&digits(v, k))).map(|_| Outcome::new(true)))
        }),
    }
    .boxed()]
}

fn chk_exts(v: u8) -> Result<(), String> {
    let e = Exts::new(v);
    let l = v & 0xf;
    let r = v >> 4;
    let want_comp = model::nib_complement(l) | (model::nib_complement(r) << 4);
    if e.complement().val != want_comp {
        return Err(format!("Exts({:#04x}).complement() = {:#04x}, want {:#04x}", v, e.complement().val, want_comp));
    }
    let want_rev = r | (l << 4);
    if e.reverse().val != want_rev {
        return Err(format!("Exts({:#04x}).reverse() = {:#04x}, want {:#04x}", v, e.reverse().val, want_rev));
    }
    let want_rc = model::ext_rc(v);
    if e.rc().val != want_rc {
        return Err(format!("Exts({:#04x}).rc() = {:#04x}, want {:#04x}", v, e.rc().val, want_rc));
    }
    if e.rc().rc().val != v || e.complement().complement().val != v || e.reverse().reverse().val != v {
        return Err(format!("Exts({:#04x}): rc/complement/reverse is not an involution", v));
    }
    // set view: base b on side d in e  <=>  base 3-b on the other side in rc(e)
    for (d, od) in [(Dir::Left, Dir::Right), (Dir::Right, Dir::Left)] {
        for b in 0..4u8 {
            if e.has_ext(d, b) != e.rc().has_ext(od, 3 - b) {
                return Err(format!("Exts({:#04x}): has_ext/rc set view disagrees", v));
            }
        }
        let got = e.get(d);
        let want: Vec<u8> = (0..4u8).filter(|b| e.has_ext(d, *b)).collect();
        if got != want || e.num_ext_dir(d) as usize != want.len() {
            return Err(format!("Exts({:#04x}): get/num_ext_dir disagree with has_ext", v));
        }
    }
    Ok(())
}

fn exts_job() -> Box<dyn Job> {
    EnumJob {
        name: "exhaustive_exts".into(),
        run: Box::new(|_e: &Env, rep: &mut JobReport| {
            for v in 0..=255u8 {
                match guarded(|| chk_exts(v)) {
                    Ok(()) => rep.pass(&Outcome::new(v != 0), v as u64, || json!({"exts": v})),
                    Err(m) => rep.fail(m, json!({ "v": v })),
                }
            }
            rep.exhaustive = true;
            rep.extra.insert("values_enumerated".into(), json!(256));
        }),
        replay: Box::new(|case: &Value| {
            let v = case.get("case").unwrap_or(case).get("v").and_then(|v| v.as_u64()).ok_or("no v")? as u8;
            Ok(guarded(|| chk_exts(v)).map(|_| Outcome::new(true)))
        }),
    }
    .boxed()
}

#[derive(Debug, Clone, Serialize, Deserialize)]
pub struct KCase {
    pub s: Seq,
}

fn kmer_prop<K: Kmer + 'static>(name: &'static str, _env: &Env) -> Vec<Box<dyn Job>> {
    let k = K::k();
    vec![PropJob::new(
        format!("kmer_rc/{}", name),
        2000,
        80000,
        move |_e: &Env| {
            prop_oneof![
                3 => gen::kmer_seq(k),
                // near-palindromes: a palindromic shape with one lane changed (odd K: the middle lane matters)
                2 => (gen::kmer_seq(k), 0usize..k.max(1), 0u8..4).prop_map(move |(mut s, i, b)| {
                    let h = k / 2;
                    for j in 0..h {
                        s[k - 1 - j] = 3 - s[j];
                    }
                    if i % 3 != 0 {
                        s[i] = b;
                    }
                    s
                }),
            ]
            .prop_map(|s| KCase { s })
            .boxed()
        },
        |c: &KCase| {
            chk_kmer_rc::<K>(&c.s)?;
            let hom = c.s.iter().all(|b| *b == c.s[0]);
            Ok(Outcome::new(!hom)
                .label(is_pal(&c.s), "palindrome")
                .label(rc(&c.s).as_slice() < c.s.as_slice(), "rc_is_smaller"))
        },
    )
    .with_render(|c: &KCase| json!({"s": to_ascii(&c.s)}))
    .boxed()]
}

#[derive(Debug, Clone, Serialize, Deserialize)]
pub struct CCase {
    pub seq: Seq,
    pub lflank: u8,
    pub rflank: u8,
    pub bexts: u8,
}

fn container_check<K: Kmer>(c: &CCase) -> CheckResult {
    let m = &c.seq;
    let n = m.len();
    let r = rc(m);
    // DnaString
    let ds = DnaString::from_bytes(m);
    let dsrc = ds.rc();
    if dsrc.to_bytes() != r {
        return Err(format!("DnaString::rc: got {} want {}", to_ascii(&dsrc.to_bytes()), to_ascii(&r)));
    }
    if dsrc.rc() != ds {
        return Err("DnaString: rc(rc(x)) != x".into());
    }
    if dsrc != DnaString::from_bytes(&r) {
        return Err("DnaString::rc is not == to the string built from the reverse-complemented bases".into());
    }
    check_container::<K, _>("DnaString.rc()", &dsrc, &r, c.bexts)?;
    {
        // the same string built through the Vmer constructor (blank + set_mut) is the same value, and rc is an involution on it
        let dv = <DnaString as Vmer>::from_slice(m);
        if dv != ds || dv.rc() != dsrc || dv.rc().rc() != dv {
            return Err(format!(
                "DnaString built by Vmer::from_slice (length {}): not == to from_bytes of the same bases, or rc(rc(x)) != x",
                n
            ));
        }
    }
    // slices
    let (lf, rf) = (c.lflank as usize, c.rflank as usize);
    let mut backing: Seq = (0..lf).map(|i| ((i * 3 + 1) % 4) as u8).collect();
    backing.extend_from_slice(m);
    backing.extend((0..rf).map(|i| ((i * 5 + 2) % 4) as u8));
    let bs = DnaString::from_bytes(&backing);
    let sl = bs.slice(lf, lf + n);
    let slrc = sl.rc();
    if slrc.bytes() != r {
        return Err(format!("DnaStringSlice::rc: got {} want {}", to_ascii(&slrc.bytes()), to_ascii(&r)));
    }
    if slrc.rc() != sl || slrc.rc().bytes() != *m {
        return Err("DnaStringSlice: rc(rc(x)) != x".into());
    }
    if slrc.to_owned() != dsrc {
        return Err("slice.rc().to_owned() differs from DnaString::rc()".into());
    }
    check_container::<K, _>("DnaStringSlice.rc()", &slrc, &r, c.bexts)?;
    // a view equals its own reverse complement exactly when the denoted sequence does
    if (sl == slrc) != (*m == r) || (slrc == sl) != (*m == r) {
        return Err(format!(
            "view == view.rc() is {} but the sequence {} its reverse complement",
            sl == slrc,
            if *m == r { "equals" } else { "differs from" }
        ));
    }
    {
        // a window that reads the same on both strands: S + rc(S) inside a longer string
        let half = &m[..n / 2];
        let mut pal: Seq = half.to_vec();
        pal.extend(rc(half));
        let mut b2: Seq = (0..lf).map(|i| ((i * 3 + 2) % 4) as u8).collect();
        b2.extend_from_slice(&pal);
        b2.extend_from_slice(&[1, 3, 0]);
        let d2 = DnaString::from_bytes(&b2);
        let w = d2.slice(lf, lf + pal.len());
        if !(w == w.rc()) || w.rc().bytes() != pal {
            return Err(format!("a window spelling the self-reverse-complement sequence {} is not == to its rc() view", to_ascii(&pal)));
        }
    }
    // slicing a reverse-complemented view (window not at the end of the backing string)
    if n > 0 {
        let a = (c.lflank as usize * 7) % (n + 1);
        let b = a + (c.rflank as usize * 5) % (n - a + 1);
        let sub = slrc.slice(a, b);
        if sub.bytes() != r[a..b] {
            return Err(format!("view.rc().slice({}, {}) reads {} want {}", a, b, to_ascii(&sub.bytes()), to_ascii(&r[a..b])));
        }
        check_container::<K, _>("DnaStringSlice.rc().slice", &sub, &r[a..b], c.bexts)?;
        let subrc = sub.rc();
        if subrc.bytes() != rc(&r[a..b]) {
            return Err("view.rc().slice(a, b).rc() is not the reverse complement of the sub-view".into());
        }
    }
    // Lmer of every capacity that fits
    macro_rules! lm {
        ($w:expr) => {
            if n <= ($w * 64 - 8) / 2 {
                let l = Lmer::<[u64; $w]>::from_slice(m);
                let lr = l.rc();
                let got: Seq = (0..lr.len()).map(|i| lr.get(i)).collect();
                if lr.len() != n || got != r {
                    return Err(format!(
                        "Lmer<{} words>::rc: got {} (len {}) want {}",
                        $w,
                        to_ascii(&got),
                        lr.len(),
                        to_ascii(&r)
                    ));
                }
                if lr.rc() != l {
                    return Err(format!("Lmer<{} words>: rc(rc(x)) != x", $w));
                }
                if lr != Lmer::<[u64; $w]>::from_slice(&r) {
                    return Err(format!("Lmer<{} words>::rc is not == to the Lmer built from the reverse-complemented bases", $w));
                }
                check_container::<K, _>(concat!("Lmer", stringify!($w), ".rc()"), &lr, &r, c.bexts)?;
            }
        };
    }
    lm!(1);
    lm!(2);
    lm!(3);
    lm!(4);
    lm!(5);
    lm!(6);
    // commuting with extraction, stated directly: i-th k-mer of rc(x) = rc((n-K-i)-th k-mer of x)
    let k = K::k();
    if n >= k {
        for i in 0..=n - k {
            let a: K = dsrc.get_kmer(i);
            let b: K = ds.get_kmer(n - k - i);
            if a != b.rc() || kseq(&a) != rc(&kseq(&b)) {
                return Err(format!("k-mer {} of rc(x) is not the reverse complement of k-mer {} of x", i, n - k - i));
            }
        }
    }
    Ok(Outcome::new(n >= 2)
        .label(n % 32 == 0 && n > 0, "len_multiple_of_32")
        .label(n == 0, "empty")
        .label(n > 64, "n>64")
        .label(n <= 188, "lmer_checked"))
}

fn container_prop<K: Kmer + 'static>(name: &'static str, _env: &Env) -> Vec<Box<dyn Job>> {
    let k = K::k();
    vec![PropJob::new(
        format!("containers/{}", name),
        300,
        8000,
        move |e: &Env| {
            (seq_strategy(k, e.pick(140, 300)), 0u8..70, 0u8..70, any::<u8>())
                .prop_map(|(seq, lflank, rflank, bexts)| CCase {
                    seq,
                    lflank,
                    rflank,
                    bexts,
                })
                .boxed()
        },
        |c: &CCase| container_check::<K>(c),
    )
    .with_render(|c: &CCase| json!({"seq": to_ascii(&c.seq)}))
    .boxed()]
}

#[cfg(not(fuzzing))]
pub fn jobs(env: &Env) -> Vec<Box<dyn Job>> {
    let mut out: Vec<Box<dyn Job>> = vec![exts_job()];
    crate::kmers_list!(exhaustive_kmer, out, env; Kmer8, Kmer6, Kmer5, Kmer4, Kmer4v, Kmer3, Kmer2);
    crate::kmers_all!(kmer_prop, out, env);
    crate::kmers_all!(container_prop, out, env);
    out
}
