//! Shared case type for the graph-construction properties (C01, C02, C03, C06, C09).

use proptest::prelude::*;
use serde::{Deserialize, Serialize};

use crate::gen::reads::{read_set, ReadSet};
use crate::model::{self, Read};
use crate::pipeline::Entry3;
use crate::runner::Env;

#[derive(Debug, Clone, Serialize, Deserialize)]
pub struct GCase {
    pub rs: ReadSet,
    pub stranded: bool,
    /// 1..=3, or 255 = above every count
    pub min_count: u8,
    pub entry: Entry3,
    /// 0 = whole read set; n >= 2: only one model-side shard (pieces with extensions leaving the table)
    pub shards: u8,
    pub shard_pick: u16,
    pub aux: u64,
}

impl GCase {
    pub fn reads(&self, k: usize) -> Vec<Read> {
        let reads = self.rs.materialise(k);
        if self.shards >= 2 {
            let sh = model::shard_reads(&reads, k, self.stranded, self.shards as usize, self.aux);
            let i = crate::util::idx(self.shard_pick, sh.len());
            sh[i].clone()
        } else {
            reads
        }
    }
    pub fn min_count(&self) -> usize {
        if self.min_count == 255 {
            1_000_000
        } else {
            self.min_count as usize
        }
    }
}

pub fn max_reads(env: &Env) -> usize {
    env.pick(8, 24)
}

pub fn gcase(k: usize, env: &Env, allow_shards: bool) -> BoxedStrategy<GCase> {
    let shards = if allow_shards {
        prop_oneof![4 => Just(0u8), 1 => 2u8..5].boxed()
    } else {
        Just(0u8).boxed()
    };
    (
        read_set(k, max_reads(env), 3),
        any::<bool>(),
        prop_oneof![6 => Just(1u8), 3 => Just(2u8), 1 => Just(3u8), 1 => Just(255u8)],
        prop_oneof![3 => Just(Entry3::Hash), 3 => Just(Entry3::SortedSlice), 3 => Just(Entry3::NoExts), 2 => Just(Entry3::SortedSliceRaw)],
        shards,
        any::<u16>(),
        any::<u64>(),
    )
        .prop_map(|(rs, stranded, min_count, entry, shards, shard_pick, aux)| GCase {
            rs,
            stranded,
            min_count,
            entry,
            shards,
            shard_pick,
            aux,
        })
        .boxed()
}
