//! C15 — string slices are exact, composable views.

use debruijn::dna_string::{DnaString, DnaStringSlice, PackedDnaStringSet};
use debruijn::{Mer, Vmer};
use proptest::prelude::*;
use serde::{Deserialize, Serialize};
use serde_json::json;

use crate::ktypes::{Kmer12, Kmer16, Kmer3, Kmer32, Kmer48, Kmer5, Kmer64, Kmer8};
use crate::props::c13::check_container;
use crate::runner::{CheckResult, Env, Job, Outcome, PropJob};
use crate::util::{rc, splitmix, to_ascii, Seq};

pub const RULE: &str = "views: case = backing string (length mixture 0..300, with boundary lengths) x history of 0..6 steps from {slice(a,b), rc(), prefix-like slice(0,b), suffix-like slice(a,len)} applied to a DnaString slice, a prefix(), a suffix() (the string built by from_bytes or by push + one/two extend calls) or a PackedDnaStringSet entry/slice; after EVERY step get/len/is_empty/bytes/ascii/to_dna_string/Display/Debug (length < 256: the bases; otherwise the descriptor's len and is_rc must be truthful)/iter/IntoIterator/to_owned (==, Hash, Ord, ndiffs against from_bytes of the model, also after extend() on the copy)/== against equal and unequal content elsewhere and against other views of the same string (its own rc() view, overlapping views)/k-mer accessors for K in {3,5,8,12,16,32,48,64} equal the corresponding substring (reverse-complemented when flagged) of the plain vector. distances: case = two equal-length slices (length mixture incl. 1023,1024,1025,2048,4096+) of different strings at different offsets, each forward or reverse-complemented, differing at generated positions biased to the first and last 64; hamming_dist must equal the naive count, symmetrically. Non-trivial = depth >= 2 with >= 1 rc, or a distance case with length >= 1024.";
pub const TECHNIQUE: &str = "seeded proptest over nested slice/rc histories against a substring model; naive Hamming count";

#[derive(Debug, Clone, Serialize, Deserialize)]
pub enum Step {
    Slice(u16, u16),
    Rc,
    Head(u16),
    Tail(u16),
}

#[derive(Debug, Clone, Serialize, Deserialize)]
pub struct VCase {
    pub backing: Seq,
    /// 0 slice, 1 prefix, 2 suffix, 3 packed-set entry, 4 packed-set slice
    pub origin: u8,
    pub first: (u16, u16),
    pub steps: Vec<Step>,
    pub set_before: Seq,
    /// how the backing string is built: 0 = from_bytes; otherwise push a head, then extend (in one or two calls)
    #[serde(default)]
    pub build: u16,
}

fn vcase(env: &Env) -> BoxedStrategy<VCase> {
    let maxlen = env.pick(300usize, 700usize);
    let lens = prop_oneof![
        4 => 0usize..=maxlen,
        3 => proptest::sample::select(vec![0usize, 1, 2, 31, 32, 33, 63, 64, 65, 96, 127, 128, 129, 255, 256, 257, 300]),
    ];
    let step = prop_oneof![
        4 => (any::<u16>(), any::<u16>()).prop_map(|(a, b)| Step::Slice(a, b)),
        3 => Just(Step::Rc),
        1 => any::<u16>().prop_map(Step::Head),
        1 => any::<u16>().prop_map(Step::Tail),
    ];
    (
        lens.prop_flat_map(|n| proptest::collection::vec(0u8..4, n)),
        0u8..5,
        (any::<u16>(), any::<u16>()),
        proptest::collection::vec(step, 0..7),
        proptest::collection::vec(0u8..4, 0..70),
        prop_oneof![2 => Just(0u16), 3 => any::<u16>()],
    )
        .prop_map(|(backing, origin, first, steps, set_before, build)| VCase {
            backing,
            origin,
            first,
            steps,
            set_before,
            build,
        })
        .boxed()
}

fn rebuild<'a>(d: &'a DnaString, s: &DnaStringSlice) -> DnaStringSlice<'a> {
    DnaStringSlice {
        dna_string: d,
        start: s.start,
        length: s.length,
        is_rc: s.is_rc,
    }
}

/// Everything a view must satisfy, given the plain substring it denotes.
pub fn check_view(what: &str, v: &DnaStringSlice, m: &[u8], is_rc: bool, salt: u64) -> Result<(), String> {
    let ctx = |e: String| format!("{}: {}", what, e);
    let n = m.len();
    if v.len() != n || v.is_empty() != (n == 0) {
        return Err(ctx(format!("len() = {} want {}", v.len(), n)));
    }
    for i in 0..n {
        if v.get(i) != m[i] {
            return Err(ctx(format!("get({}) = {} want {} (view {} model {})", i, v.get(i), m[i], to_ascii(&v.bytes()), to_ascii(m))));
        }
    }
    if v.bytes() != m {
        return Err(ctx("bytes() differs".into()));
    }
    let asc = to_ascii(m);
    if v.ascii() != asc.as_bytes() || v.to_dna_string() != asc || format!("{}", v) != asc {
        return Err(ctx(format!("ascii()/to_dna_string()/Display render {} want {}", v, asc)));
    }
    let dbg = format!("{:?}", v);
    if n < 256 {
        if dbg != asc {
            return Err(ctx(format!("debug form is {} but the view denotes {}", dbg, asc)));
        }
    } else {
        // abbreviated descriptor: must be truthful
        let want_len = format!("len: {}", n);
        let want_rc = format!("is_rc: {}", is_rc);
        if !dbg.contains(&want_len) || !dbg.contains(&want_rc) {
            return Err(ctx(format!("debug descriptor '{}' does not report '{}' and '{}'", dbg, want_len, want_rc)));
        }
    }
    let it: Seq = v.iter().take(n + 8).collect();
    let it2: Seq = v.into_iter().take(n + 8).collect();
    if it != m || it2 != m {
        return Err(ctx("iteration differs".into()));
    }
    // owned copy: value identity against independent routes
    crate::props::c14::same(&format!("{} to_owned()", what), &v.to_owned(), m)?;
    // the owned copy is a string like any other: appending to it gives the substring followed by the appended bases
    {
        let mut st = salt ^ 0x9e37;
        let extra: Seq = (0..(splitmix(&mut st) % 70) as usize).map(|_| (splitmix(&mut st) & 3) as u8).collect();
        let mut o = v.to_owned();
        o.extend(extra.iter().cloned());
        let mut want = m.to_vec();
        want.extend_from_slice(&extra);
        crate::props::c14::same(&format!("{} to_owned() then extend({} bases)", what, extra.len()), &o, &want)?;
    }
    // equality with the same content held elsewhere, at another offset, in the other orientation
    let mut st = salt;
    let pad = (splitmix(&mut st) % 37) as usize;
    let mut other: Seq = (0..pad).map(|i| ((i * 3 + 1) % 4) as u8).collect();
    other.extend(rc(m));
    other.extend_from_slice(&[2, 1]);
    let od = DnaString::from_bytes(&other);
    let twin = od.slice(pad, pad + n).rc();
    if !(*v == twin) || !(twin == *v) {
        return Err(ctx("== is false against a view of equal content stored reverse-complemented elsewhere".into()));
    }
    if n > 0 {
        let p = (splitmix(&mut st) % n as u64) as usize;
        let mut changed = m.to_vec();
        changed[p] = (changed[p] + 1) % 4;
        let cd = DnaString::from_bytes(&changed);
        if *v == cd.slice(0, n) {
            return Err(ctx(format!("== is true against content differing at position {}", p)));
        }
        if *v == od.slice(pad, pad + n - 1).rc() && n > 1 {
            return Err(ctx("== is true against a shorter view".into()));
        }
    }
    // equality against views of the SAME backing string (same interval, other strand; shifted interval)
    {
        let vr = v.rc();
        let want = rc(m) == m;
        if (*v == vr) != want || (vr == *v) != want {
            return Err(ctx(format!(
                "view == view.rc() is {} but the denoted sequence {} its reverse complement",
                *v == vr,
                if want { "equals" } else { "differs from" }
            )));
        }
        if !(vr.rc() == *v) {
            return Err(ctx("view.rc().rc() != view".into()));
        }
        if n >= 2 {
            let head = DnaStringSlice { dna_string: v.dna_string, start: v.start, length: n - 1, is_rc: false };
            let tail = DnaStringSlice { dna_string: v.dna_string, start: v.start + 1, length: n - 1, is_rc: false };
            let hm: Seq = (0..n - 1).map(|i| head.get(i)).collect();
            let tm: Seq = (0..n - 1).map(|i| tail.get(i)).collect();
            if (head == tail) != (hm == tm) {
                return Err(ctx("== between two overlapping views of the same string disagrees with their contents".into()));
            }
            let headrc = head.rc();
            if (head == headrc) != (hm == rc(&hm)) {
                return Err(ctx("== between a view and its reverse complement disagrees with their contents".into()));
            }
        }
    }
    // k-mers
    check_container::<Kmer3, _>(what, v, m, 0)?;
    check_container::<Kmer5, _>(what, v, m, 0x81)?;
    check_container::<Kmer8, _>(what, v, m, 0)?;
    check_container::<Kmer12, _>(what, v, m, 0)?;
    check_container::<Kmer16, _>(what, v, m, 0)?;
    check_container::<Kmer32, _>(what, v, m, 0xff)?;
    check_container::<Kmer48, _>(what, v, m, 0)?;
    check_container::<Kmer64, _>(what, v, m, 0)?;
    Ok(())
}

/// The backing string, built by the route the case selects: the views must denote substrings of the plain
/// base vector whichever way the string was assembled (from_bytes / push then extend / push, extend, extend).
fn build_backing(b: &[u8], build: u16) -> DnaString {
    if build == 0 {
        return DnaString::from_bytes(b);
    }
    let n = b.len();
    let head = crate::util::idx(build, n + 1).min(if build & 1 == 1 { 40 } else { n });
    let mut d = DnaString::new();
    for x in &b[..head] {
        d.push(*x);
    }
    if build & 2 == 2 {
        let mid = head + (n - head) / 2;
        d.extend(b[head..mid].iter().cloned());
        d.extend(b[mid..].iter().cloned());
    } else {
        d.extend(b[head..].iter().cloned());
    }
    d
}

pub fn check_views(c: &VCase) -> CheckResult {
    let b = &c.backing;
    let n = b.len();
    // origin
    let a0 = crate::util::idx(c.first.0, n + 1);
    let b0 = a0 + crate::util::idx(c.first.1, n - a0 + 1);
    let d;
    let set;
    let (backing_ref, mut view, mut model): (&DnaString, DnaStringSlice, Seq) = match c.origin {
        1 => {
            d = build_backing(b, c.build);
            (&d, d.prefix(b0), b[..b0].to_vec())
        }
        2 => {
            d = build_backing(b, c.build);
            (&d, d.suffix(n - a0), b[a0..].to_vec())
        }
        3 | 4 => {
            let mut s = PackedDnaStringSet::new();
            s.add(c.set_before.iter());
            s.add(b.iter());
            s.add([3u8, 2, 1].iter());
            set = s;
            if c.origin == 3 {
                (&set.sequence, set.get(1), b.clone())
            } else {
                (&set.sequence, set.slice(1, a0, b0), b[a0..b0].to_vec())
            }
        }
        _ => {
            d = build_backing(b, c.build);
            (&d, d.slice(a0, b0), b[a0..b0].to_vec())
        }
    };
    let mut is_rc = false;
    check_view("origin", &view, &model, is_rc, 1)?;
    let mut depth = 0;
    let mut rcs = 0;
    for (i, st) in c.steps.iter().enumerate() {
        let len = model.len();
        let next = match st {
            Step::Slice(x, y) => {
                let a = crate::util::idx(*x, len + 1);
                let bb = a + crate::util::idx(*y, len - a + 1);
                model = model[a..bb].to_vec();
                let s = view.slice(a, bb);
                rebuild(backing_ref, &s)
            }
            Step::Rc => {
                model = rc(&model);
                is_rc = !is_rc;
                rcs += 1;
                view.rc()
            }
            Step::Head(y) => {
                let bb = crate::util::idx(*y, len + 1);
                model = model[..bb].to_vec();
                let s = view.slice(0, bb);
                rebuild(backing_ref, &s)
            }
            Step::Tail(x) => {
                let a = crate::util::idx(*x, len + 1);
                model = model[a..].to_vec();
                let s = view.slice(a, len);
                rebuild(backing_ref, &s)
            }
        };
        view = next;
        depth += 1;
        check_view(&format!("after step {} ({:?})", i, st), &view, &model, is_rc, i as u64 + 7)?;
    }
    Ok(Outcome::new(depth >= 2 && rcs >= 1)
        .label(rcs >= 1, "has_rc")
        .label(rcs >= 2, "rc_twice")
        .label(depth >= 3, "depth>=3")
        .label(c.origin >= 3, "packed_set_origin")
        .label(c.origin < 3 && c.build != 0, "backing_built_by_push+extend")
        .label(model.len() >= 256, "len>=256")
        .label(model.len() > 32, "len>32"))
}

#[derive(Debug, Clone, Serialize, Deserialize)]
pub struct DCase {
    pub len: u32,
    pub seed: u64,
    pub off1: u8,
    pub off2: u8,
    pub rc1: bool,
    pub rc2: bool,
    pub diffs: Vec<(u8, u16)>,
}

fn dcase(env: &Env) -> BoxedStrategy<DCase> {
    let big = env.pick(4200u32, 9000u32);
    let lens = prop_oneof![
        3 => 0u32..200,
        3 => proptest::sample::select(vec![0u32, 1, 31, 32, 33, 64, 1023, 1024, 1025, 1056, 2047, 2048, 2049, 3072, 4096, 4097]),
        2 => 1000u32..1100,
        2 => 1024u32..big,
    ];
    (
        lens,
        any::<u64>(),
        0u8..70,
        0u8..70,
        any::<bool>(),
        any::<bool>(),
        proptest::collection::vec((0u8..4, any::<u16>()), 0..12),
    )
        .prop_map(|(len, seed, off1, off2, rc1, rc2, diffs)| DCase {
            len,
            seed,
            off1,
            off2,
            rc1,
            rc2,
            diffs,
        })
        .boxed()
}

pub fn check_dist(c: &DCase) -> CheckResult {
    let n = c.len as usize;
    let mut st = c.seed;
    let mut a: Seq = Vec::with_capacity(n);
    let mut r = 0u64;
    for i in 0..n {
        if i % 32 == 0 {
            r = splitmix(&mut st);
        }
        a.push(((r >> (2 * (i % 32))) & 3) as u8);
    }
    let mut b = a.clone();
    // differences biased to the first and last 64 positions
    let mut npos = 0;
    if n > 0 {
        for (zone, frac) in &c.diffs {
            let p = match zone {
                0 => crate::util::idx(*frac, n.min(64)),
                1 => n - 1 - crate::util::idx(*frac, n.min(64)),
                _ => crate::util::idx(*frac, n),
            };
            b[p] = (b[p] + 1 + (*frac % 3) as u8) % 4;
            npos += 1;
        }
    }
    let want = a.iter().zip(b.iter()).filter(|(x, y)| x != y).count() as u32;
    let store = |m: &Seq, off: u8, flip: bool| -> DnaString {
        let body = if flip { rc(m) } else { m.clone() };
        let mut v: Seq = (0..off as usize).map(|i| ((i * 7 + 2) % 4) as u8).collect();
        v.extend(body);
        v.extend_from_slice(&[0, 3, 1, 2, 2]);
        DnaString::from_bytes(&v)
    };
    let da = store(&a, c.off1, c.rc1);
    let db = store(&b, c.off2, c.rc2);
    let sa = da.slice(c.off1 as usize, c.off1 as usize + n);
    let sa = if c.rc1 { sa.rc() } else { sa };
    let sb = db.slice(c.off2 as usize, c.off2 as usize + n);
    let sb = if c.rc2 { sb.rc() } else { sb };
    if sa.bytes() != a || sb.bytes() != b {
        return Err("harness: views do not denote the intended strings".into());
    }
    let got = sa.hamming_dist(&sb);
    if got != want {
        return Err(format!(
            "hamming_dist of two length-{} views (offsets {} / {}, rc {} / {}) = {} but {} positions differ",
            n, c.off1, c.off2, c.rc1, c.rc2, got, want
        ));
    }
    let got2 = sb.hamming_dist(&sa);
    if got2 != want {
        return Err(format!("hamming_dist is not symmetric: {} vs {}", got, got2));
    }
    if sa.hamming_dist(&sa) != 0 {
        return Err("hamming_dist(x, x) != 0".into());
    }
    Ok(Outcome::new(n >= 1024)
        .label(n >= 1024, "len>=1024")
        .label(n >= 2048, "len>=2048")
        .label(n >= 4096, "len>=4096")
        .label(c.rc1 != c.rc2, "mixed_orientation")
        .label(want > 0, "differs")
        .label(npos > 0 && want == 0, "edits_cancelled"))
}

#[cfg(not(fuzzing))]
pub fn jobs(_env: &Env) -> Vec<Box<dyn Job>> {
    let mut out: Vec<Box<dyn Job>> = Vec::new();
    for i in 0..10 {
        out.push(
            PropJob::new(format!("views/{}", i), 250, 8000, |e: &Env| vcase(e), check_views)
                .with_render(|c: &VCase| json!({"backing": to_ascii(&c.backing), "steps": format!("{:?}", c.steps)}))
                .boxed(),
        );
    }
    for i in 0..6 {
        out.push(PropJob::new(format!("distance/{}", i), 600, 20000, |e: &Env| dcase(e), check_dist).boxed());
    }
    out
}
