//! C10 — packed k-mers behave as length-K strings.
//! Exhaustive over all 4^K values for K <= 8; seeded proptest with boundary-biased values otherwise.

use debruijn::{Dir, Exts, Kmer, MerImmut};
use proptest::prelude::*;
use serde::{Deserialize, Serialize};
use serde_json::{json, Value};

use crate::gen;
use crate::ktypes::kseq;
use crate::runner::{guarded, CheckResult, EnumJob, Env, Job, JobReport, Outcome, PropJob};
use crate::util::{pack_top, rc, splitmix, to_ascii, Seq};

pub const RULE: &str = "case = (k-mer type, k-mer value s, second value t, position, run length, base, packed word with garbage low bits, extension byte, longer sequence); every operation of the Kmer/Mer/MerImmut API is applied and compared with the same operation on the plain K-letter Vec<u8>. K<=8: every one of the 4^K values is enumerated with all positions, bases and (pos,run) pairs (exhaustive jobs). K>8: generated values biased to homopolymers, single-lane differences, alternating, palindromic and A/T-only shapes. Non-trivial = value is not all-A; distinct = distinct (type, case) hashes.";
pub const TECHNIQUE: &str = "exhaustive enumeration (K<=8) + seeded proptest (K>8) against a Vec<u8> string model";

pub fn digits(mut v: u64, k: usize) -> Seq {
    let mut s = vec![0u8; k];
    for i in (0..k).rev() {
        s[i] = (v & 3) as u8;
        v >>= 2;
    }
    s
}

pub fn rank(s: &[u8]) -> u64 {
    // for more than 32 bases the leading ones fall off the top (callers that need exact ranks pass <= 32 bases)
    s.iter().fold(0u64, |a, b| a.wrapping_shl(2) | (*b as u64))
}

/// `got` must spell `want` and must be `==` / cmp-equal to the k-mer built from `want`.
pub fn expect<K: Kmer>(what: &str, got: K, want: &[u8]) -> Result<(), String> {
    let g = kseq(&got);
    if g != want {
        return Err(format!("{}: got {} want {}", what, to_ascii(&g), to_ascii(want)));
    }
    let w = K::from_bytes(want);
    if got != w || got.cmp(&w) != std::cmp::Ordering::Equal {
        return Err(format!(
            "{}: spells {} but is not == to from_bytes of the same string (stale storage bits)",
            what,
            to_ascii(want)
        ));
    }
    Ok(())
}

fn model_from_u64(v: u64, k: usize) -> Seq {
    if k >= 32 {
        let mut s = vec![0u8; k - 32];
        s.extend(digits(v, 32));
        s
    } else {
        digits(v, k)
    }
}

/// Checks that need only the value itself.
pub fn chk_value<K: Kmer>(s: &[u8], exts: u8) -> Result<(), String> {
    let k = K::k();
    assert_eq!(s.len(), k);
    let km = K::from_bytes(s);
    if km.len() != k || K::k() != k {
        return Err(format!("len {} != {}", km.len(), k));
    }
    if km.is_empty() != (k == 0) {
        return Err("is_empty wrong".into());
    }
    for i in 0..k {
        if km.get(i) != s[i] {
            return Err(format!("from_bytes/get: pos {} got {} want {}", i, km.get(i), s[i]));
        }
    }
    let it: Seq = km.iter().take(k + 8).collect();
    if it != s {
        return Err(format!("iter: got {} want {}", to_ascii(&it), to_ascii(s)));
    }
    let asc = to_ascii(s);
    if Kmer::to_string(&km) != asc {
        return Err(format!("to_string: got {} want {}", Kmer::to_string(&km), asc));
    }
    if !format!("{:?}", km).contains(&asc) {
        return Err(format!("Debug: got {:?} want {}", km, asc));
    }
    // from_bytes with a longer slice uses the first K bytes
    let mut longer = s.to_vec();
    longer.extend_from_slice(&[3, 2, 1]);
    expect("from_bytes(longer slice)", K::from_bytes(&longer), s)?;
    // ASCII, both cases
    expect("from_ascii(upper)", K::from_ascii(asc.as_bytes()), s)?;
    expect("from_ascii(lower)", K::from_ascii(asc.to_lowercase().as_bytes()), s)?;
    let mixed: Vec<u8> = asc
        .bytes()
        .enumerate()
        .map(|(i, c)| if i % 2 == 0 { c.to_ascii_lowercase() } else { c })
        .collect();
    expect("from_ascii(mixed)", K::from_ascii(&mixed), s)?;
    // rank conversions
    if k <= 32 {
        let r = rank(s);
        if km.to_u64() != r {
            return Err(format!("to_u64: got {} want {}", km.to_u64(), r));
        }
        expect("from_u64(rank)", K::from_u64(r), s)?;
    } else {
        // leading bases are A's
        let r = rank(&s[k - 32..]);
        expect("from_u64 (K>32)", K::from_u64(r), &model_from_u64(r, k))?;
    }
    // empty
    expect("empty", K::empty(), &vec![0u8; k])?;
    // rc
    let r = rc(s);
    expect("rc", km.rc(), &r)?;
    expect("rc(rc)", km.rc().rc(), s)?;
    // counts
    let at = s.iter().filter(|b| **b == 0 || **b == 3).count() as u32;
    if km.at_count() != at {
        return Err(format!("at_count: got {} want {}", km.at_count(), at));
    }
    if km.gc_count() != k as u32 - at {
        return Err(format!("gc_count: got {} want {}", km.gc_count(), k as u32 - at));
    }
    // the counts must not depend on the route that produced the value
    let via_rc = km.rc().rc();
    if via_rc.at_count() != at || via_rc.gc_count() != k as u32 - at {
        return Err("at/gc_count differ after rc().rc()".into());
    }
    // shifting a base in from either side
    for b in 0..4u8 {
        let mut l = vec![b];
        l.extend_from_slice(&s[..k - 1]);
        expect("extend_left", km.extend_left(b), &l)?;
        expect("extend(Left)", km.extend(b, Dir::Left), &l)?;
        let mut rr = s[1..].to_vec();
        rr.push(b);
        expect("extend_right", km.extend_right(b), &rr)?;
        expect("extend(Right)", km.extend(b, Dir::Right), &rr)?;
        // chained: counts and rank after a shift (stale high lanes would show here)
        let e = km.extend_right(b);
        let at2 = rr.iter().filter(|x| **x == 0 || **x == 3).count() as u32;
        if e.at_count() != at2 || e.gc_count() != k as u32 - at2 {
            return Err(format!("at/gc_count after extend_right({}) wrong", b));
        }
        if k <= 32 && e.to_u64() != rank(&rr) {
            return Err(format!("to_u64 after extend_right({}) wrong", b));
        }
        let e = km.extend_left(b);
        if k <= 32 && e.to_u64() != rank(&l) {
            return Err(format!("to_u64 after extend_left({}) wrong", b));
        }
    }
    // get_extensions
    let ex = Exts::new(exts);
    for (dir, bits) in [(Dir::Left, exts & 0xf), (Dir::Right, exts >> 4)] {
        let got = km.get_extensions(ex, dir);
        let mut want: Vec<Seq> = Vec::new();
        for b in 0..4u8 {
            if bits & (1 << b) != 0 {
                let mut v;
                match dir {
                    Dir::Left => {
                        v = vec![b];
                        v.extend_from_slice(&s[..k - 1]);
                    }
                    Dir::Right => {
                        v = s[1..].to_vec();
                        v.push(b);
                    }
                }
                want.push(v);
            }
        }
        if got.len() != want.len() {
            return Err(format!("get_extensions({:?}): {} items, want {}", dir, got.len(), want.len()));
        }
        for (g, w) in got.iter().zip(want.iter()) {
            expect("get_extensions item", *g, w)?;
        }
    }
    Ok(())
}

pub fn chk_set<K: Kmer>(s: &[u8], pos: usize, b: u8) -> Result<(), String> {
    let mut km = K::from_bytes(s);
    km.set_mut(pos, b);
    let mut w = s.to_vec();
    w[pos] = b;
    expect("set_mut", km, &w)?;
    // non-mutating interface: the original is untouched, the copy is changed
    let orig = K::from_bytes(s);
    let copy = orig.set(pos, b);
    expect("MerImmut::set (copy)", copy, &w)?;
    expect("MerImmut::set (original)", orig, s)
}

pub fn chk_set_slice<K: Kmer>(s: &[u8], pos: usize, n: usize, newb: &[u8], garbage: u64) -> Result<(), String> {
    assert!(n >= 1 && n <= 32 && pos + n <= s.len() && newb.len() == n);
    let mut km = K::from_bytes(s);
    km.set_slice_mut(pos, n, pack_top(newb, garbage));
    let mut w = s.to_vec();
    w[pos..pos + n].copy_from_slice(newb);
    expect("set_slice_mut", km, &w).map_err(|e| format!("{} (pos {} n {} garbage {:#x})", e, pos, n, garbage))?;
    let orig = K::from_bytes(s);
    let copy = orig.set_slice(pos, n, pack_top(newb, garbage));
    expect("MerImmut::set_slice (copy)", copy, &w).map_err(|e| format!("{} (pos {} n {})", e, pos, n))?;
    expect("MerImmut::set_slice (original)", orig, s)
}

pub fn chk_hamming<K: Kmer>(s: &[u8], t: &[u8]) -> Result<(), String> {
    let a = K::from_bytes(s);
    let b = K::from_bytes(t);
    let want = s.iter().zip(t.iter()).filter(|(x, y)| x != y).count() as u32;
    if a.hamming_dist(b) != want {
        return Err(format!(
            "hamming_dist({}, {}): got {} want {}",
            to_ascii(s),
            to_ascii(t),
            a.hamming_dist(b),
            want
        ));
    }
    if b.hamming_dist(a) != want {
        return Err("hamming_dist not symmetric".into());
    }
    Ok(())
}

pub fn chk_bulk<K: Kmer>(long: &[u8]) -> Result<(), String> {
    let k = K::k();
    let got = K::kmers_from_bytes(long);
    let n = if long.len() >= k { long.len() - k + 1 } else { 0 };
    if got.len() != n {
        return Err(format!("kmers_from_bytes: {} items, want {}", got.len(), n));
    }
    for i in 0..n {
        expect("kmers_from_bytes item", got[i], &long[i..i + k])?;
    }
    let asc = to_ascii(long);
    let asc: Vec<u8> = asc
        .bytes()
        .enumerate()
        .map(|(i, c)| if i % 3 == 1 { c.to_ascii_lowercase() } else { c })
        .collect();
    let got = K::kmers_from_ascii(&asc);
    if got.len() != n {
        return Err(format!("kmers_from_ascii: {} items, want {}", got.len(), n));
    }
    for i in 0..n {
        expect("kmers_from_ascii item", got[i], &long[i..i + k])?;
    }
    Ok(())
}

/// Everything, exhaustively in positions / bases / runs, for one value.
fn full_value_check<K: Kmer>(v: u64, ops: &mut u64) -> Result<(), String> {
    let k = K::k();
    let s = digits(v, k);
    let mut st = v ^ 0xABCDEF;
    chk_value::<K>(&s, (splitmix(&mut st) & 0xff) as u8)?;
    chk_value::<K>(&s, (v & 0xff) as u8)?;
    *ops += 2;
    for pos in 0..k {
        for b in 0..4u8 {
            chk_set::<K>(&s, pos, b)?;
            *ops += 1;
        }
    }
    for pos in 0..k {
        for n in 1..=(k - pos).min(32) {
            // (a) complemented bases, all-ones garbage; (b) pseudo-random bases and garbage
            let comp: Seq = s[pos..pos + n].iter().map(|b| 3 - *b).collect();
            chk_set_slice::<K>(&s, pos, n, &comp, u64::MAX)?;
            let r = splitmix(&mut st);
            let rnd: Seq = (0..n).map(|i| ((r >> (2 * (i % 32))) & 3) as u8).collect();
            chk_set_slice::<K>(&s, pos, n, &rnd, splitmix(&mut st))?;
            chk_set_slice::<K>(&s, pos, n, &rnd, 0)?;
            *ops += 3;
        }
    }
    // hamming against structured and pseudo-random partners
    let total = 1u64 << (2 * k);
    for t in [
        v,
        total - 1 - v,
        v ^ 1,
        v ^ (1 << (2 * k - 1)),
        (v.wrapping_mul(2654435761)) % total,
        splitmix(&mut st) % total,
        0,
        total - 1,
    ] {
        chk_hamming::<K>(&s, &digits(t, k))?;
        *ops += 1;
    }
    // bulk constructors on a sequence containing this value
    let mut long = digits(splitmix(&mut st) % total, k);
    long.extend_from_slice(&s);
    long.extend(digits(splitmix(&mut st) % total, k));
    chk_bulk::<K>(&long)?;
    *ops += 1;
    Ok(())
}

fn exhaustive_jobs<K: Kmer + 'static>(name: &'static str, _env: &Env) -> Vec<Box<dyn Job>> {
    let k = K::k();
    if k > 8 {
        return Vec::new();
    }
    let total = 1u64 << (2 * k);
    let parts: u64 = if k == 8 { 16 } else if k >= 5 { 2 } else { 1 };
    let mut out: Vec<Box<dyn Job>> = Vec::new();
    for part in 0..parts {
        let lo = total * part / parts;
        let hi = total * (part + 1) / parts;
        let jn = format!("exhaustive/{}/{}of{}", name, part + 1, parts);
        let jn2 = jn.clone();
        out.push(
            EnumJob {
                name: jn,
                run: Box::new(move |_env: &Env, rep: &mut JobReport| {
                    let mut ops = 0u64;
                    for v in lo..hi {
                        let r = guarded(|| full_value_check::<K>(v, &mut ops));
                        match r {
                            Ok(()) => rep.pass(&Outcome::new(v != 0), v, || {
                                json!({"type": name, "value": to_ascii(&digits(v, k)), "v": v})
                            }),
                            Err(m) => rep.fail(m, json!({"v": v, "value": to_ascii(&digits(v, k))})),
                        }
                    }
                    rep.exhaustive = true;
                    rep.extra.insert("values_enumerated".into(), json!(hi - lo));
                    rep.extra.insert("operations_checked".into(), json!(ops));
                    let _ = &jn2;
                }),
                replay: Box::new(move |case: &Value| {
                    let v = case
                        .get("case")
                        .unwrap_or(case)
                        .get("v")
                        .and_then(|v| v.as_u64())
                        .ok_or("no v")?;
                    let mut ops = 0;
                    Ok(guarded(|| full_value_check::<K>(v, &mut ops)).map(|_| Outcome::new(true)))
                }),
            }
            .boxed(),
        );
    }
    out
}

#[derive(Debug, Clone, Serialize, Deserialize)]
pub struct KCase {
    pub s: Seq,
    pub t: Seq,
    pub pos: u16,
    pub n: u16,
    pub base: u8,
    pub newb: Vec<u8>,
    pub garbage: u64,
    pub exts: u8,
    pub long: Seq,
    pub v: u64,
}

fn kcase(k: usize) -> BoxedStrategy<KCase> {
    (
        gen::kmer_seq(k),
        prop_oneof![2 => gen::kmer_seq(k), 1 => Just(Vec::new())],
        any::<u16>(),
        any::<u16>(),
        0u8..4,
        proptest::collection::vec(0u8..4, 32),
        prop_oneof![Just(0u64), Just(u64::MAX), any::<u64>()],
        any::<u8>(),
        gen::dna(3 * k + 40),
        any::<u64>(),
    )
        .prop_map(|(s, t, pos, n, base, newb, garbage, exts, long, v)| KCase {
            s,
            t,
            pos,
            n,
            base,
            newb,
            garbage,
            exts,
            long,
            v,
        })
        .boxed()
}

fn check_kcase<K: Kmer>(c: &KCase) -> CheckResult {
    let k = K::k();
    if c.s.len() != k {
        return Err("malformed case".into());
    }
    chk_value::<K>(&c.s, c.exts)?;
    let pos = crate::util::idx(c.pos, k);
    chk_set::<K>(&c.s, pos, c.base)?;
    let maxn = (k - pos).min(32);
    let n = 1 + crate::util::idx(c.n, maxn);
    chk_set_slice::<K>(&c.s, pos, n, &c.newb[..n], c.garbage)?;
    // a second write on top of the first (history of two packed writes)
    {
        let mut km = K::from_bytes(&c.s);
        km.set_slice_mut(pos, n, pack_top(&c.newb[..n], c.garbage));
        let pos2 = crate::util::idx(c.n, k);
        let n2 = 1 + crate::util::idx(c.pos, (k - pos2).min(32));
        let nb2: Seq = c.newb.iter().rev().take(n2).cloned().collect();
        km.set_slice_mut(pos2, n2, pack_top(&nb2, !c.garbage));
        let mut w = c.s.clone();
        w[pos..pos + n].copy_from_slice(&c.newb[..n]);
        w[pos2..pos2 + n2].copy_from_slice(&nb2);
        expect("two packed writes", km, &w)?;
    }
    let t = if c.t.len() == k {
        c.t.clone()
    } else {
        // near neighbour: differs from s in a few lanes
        let mut t = c.s.clone();
        let mut st = c.v;
        for _ in 0..(1 + c.v % 3) {
            let i = (splitmix(&mut st) % k as u64) as usize;
            t[i] = (t[i] + 1 + (splitmix(&mut st) % 3) as u8) % 4;
        }
        t
    };
    chk_hamming::<K>(&c.s, &t)?;
    chk_bulk::<K>(&c.long)?;
    // from_u64 on arbitrary in-domain values
    let v = if k < 32 { c.v & ((1u64 << (2 * k)) - 1) } else { c.v };
    expect("from_u64(arbitrary)", K::from_u64(v), &model_from_u64(v, k))?;
    if k <= 32 && K::from_u64(v).to_u64() != v {
        return Err(format!("to_u64(from_u64({})) = {}", v, K::from_u64(v).to_u64()));
    }
    let nontrivial = c.s.iter().any(|b| *b != 0);
    Ok(Outcome::new(nontrivial)
        .label(n > 1, "packed_run>1")
        .label(pos + n == k, "run_touches_last_base")
        .label(pos == 0, "run_at_first_base")
        .label(c.garbage != 0, "garbage_low_bits")
        .label(c.long.len() > k, "bulk_nonempty"))
}

fn prop_jobs<K: Kmer + 'static>(name: &'static str, _env: &Env) -> Vec<Box<dyn Job>> {
    let k = K::k();
    let (q, t) = if k <= 8 { (1500, 30000) } else { (4000, 150000) };
    vec![PropJob::new(
        format!("ops/{}", name),
        q,
        t,
        move |_e: &Env| kcase(k),
        |c: &KCase| check_kcase::<K>(c),
    )
    .with_render(|c: &KCase| json!({"s": to_ascii(&c.s), "t": to_ascii(&c.t), "long": to_ascii(&c.long)}))
    .boxed()]
}

#[cfg(not(fuzzing))]
pub fn jobs(env: &Env) -> Vec<Box<dyn Job>> {
    let mut out: Vec<Box<dyn Job>> = Vec::new();
    // big jobs first so that the pool is balanced
    crate::kmers_list!(exhaustive_jobs, out, env; Kmer8, Kmer6, Kmer5, Kmer4, Kmer4v, Kmer3, Kmer2);
    crate::kmers_all!(prop_jobs, out, env);
    out
}
