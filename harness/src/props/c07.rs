//! C07 — minimizer partition covers every k-mer exactly once with a true minimizer.

use debruijn::dna_string::DnaString;
use debruijn::msp::{MspIntervalP, Scanner};
use debruijn::vmer::Lmer;
use debruijn::{DnaBytes, DnaSlice, Kmer, Vmer};
use proptest::prelude::*;
use serde::{Deserialize, Serialize};
use serde_json::json;

use crate::gen;
use crate::ktypes::kseq;
use crate::props::c10::rank;
use crate::runner::{CheckResult, Env, Job, Outcome, PropJob};
use crate::util::{canon, rc, to_ascii, Seq};

pub const RULE: &str = "case = (sequence over an alphabet of 1..4 letters, k in p..p+40 (sometimes up to 300), score function in {rank, bijective permutation, permutation with rc-min, constant, rank mod m (m=1..5), AT-count}, container in {DnaSlice, DnaBytes, DnaString, Lmer}); the intervals returned by Scanner::scan (and the deprecated simple_scan for p<=8) are checked against the validity predicate: tiling with k-1 overlap, k<=len<=2k-p, minimizer text and position, minimizer inside every k-mer, minimal score in the interval, and maximal extension. Non-trivial = at least 2 intervals; distinct = distinct case hashes per p-mer type.";
pub const TECHNIQUE: &str = "seeded proptest with a validity-predicate oracle over plain strings (many outputs admissible under ties)";

#[derive(Debug, Clone, Serialize, Deserialize)]
pub enum Score {
    Rank,
    Perm(u64),
    PermRc(u64),
    Const(u16),
    Mod(u8),
    AtCount,
    /// full-width 64-bit hash ordering (scores far above 2^32 for every p)
    Hash64(u64),
}

/// Bijective mixing of a 2p-bit value: a true permutation of 0..4^p without a table.
pub fn bij(x: u64, bits: u32, seed: u64) -> u64 {
    let bits = bits.min(64);
    let mask = if bits >= 64 { u64::MAX } else { (1u64 << bits) - 1 };
    let a = (seed | 1) & mask;
    let b = (seed >> 17) & mask;
    let mut y = (x.wrapping_mul(a).wrapping_add(b)) & mask;
    let sh = (bits / 2).clamp(1, 31);
    y ^= y >> sh;
    y = (y.wrapping_mul(((seed >> 7) | 1) & mask)) & mask;
    y ^= y >> sh;
    y
}

pub fn score_of(sc: &Score, pmer: &[u8]) -> usize {
    let p = pmer.len() as u32;
    match sc {
        Score::Rank => rank(pmer) as usize,
        Score::Perm(seed) => bij(rank(pmer), 2 * p, *seed) as usize,
        Score::PermRc(seed) => {
            let a = bij(rank(pmer), 2 * p, *seed);
            let b = bij(rank(&rc(pmer)), 2 * p, *seed);
            a.min(b) as usize
        }
        // the largest constants stand for the extreme score values
        Score::Const(c) => match *c {
            65535 => usize::MAX,
            65534 => usize::MAX - 1,
            x => x as usize,
        },
        Score::Mod(m) => (rank(pmer) % (*m as u64).max(1)) as usize,
        Score::AtCount => pmer.iter().filter(|b| **b == 0 || **b == 3).count(),
        Score::Hash64(seed) => {
            let mut st = rank(pmer) ^ *seed;
            crate::util::splitmix(&mut st) as usize
        }
    }
}

#[derive(Debug, Clone, Serialize, Deserialize)]
pub struct Case {
    pub seq: Seq,
    pub k_extra: u16,
    pub score: Score,
    pub container: u8,
}

fn score_strategy() -> BoxedStrategy<Score> {
    prop_oneof![
        2 => Just(Score::Rank),
        3 => any::<u64>().prop_map(Score::Perm),
        3 => any::<u64>().prop_map(Score::PermRc),
        1 => prop_oneof![3 => any::<u16>(), 1 => Just(65535u16), 1 => Just(0u16)].prop_map(Score::Const),
        3 => (1u8..6).prop_map(Score::Mod),
        1 => Just(Score::AtCount),
        2 => any::<u64>().prop_map(Score::Hash64),
    ]
    .boxed()
}

fn case_strategy(p: usize, env: &Env) -> BoxedStrategy<Case> {
    let max_extra_len = env.pick(200usize, 1200usize);
    // k = p + k_extra ; sequence length = k + extra
    let kx = prop_oneof![
        2 => Just(0u16),
        2 => Just(1u16),
        6 => 0u16..41,
        1 => 41u16..300,
    ];
    (kx, gen::alphabet(), score_strategy(), 0u8..4, 0usize..=max_extra_len)
        .prop_flat_map(move |(k_extra, (a, perm), score, container, extra)| {
            let k = p + k_extra as usize;
            let len = k + extra;
            (gen::bases(len, a, perm), Just(k_extra), Just(score), Just(container))
        })
        .prop_map(|(seq, k_extra, score, container)| Case {
            seq,
            k_extra,
            score,
            container,
        })
        .boxed()
}

pub struct Iv {
    pub start: usize,
    pub len: usize,
    pub mpos: usize,
    pub minimizer: Seq,
}

/// The validity predicate (independent of the implementation's tie-breaking).
pub fn validate(seq: &[u8], k: usize, p: usize, ivs: &[Iv], sc: &Score) -> Result<(), String> {
    let m = seq.len();
    if ivs.is_empty() {
        return Err("no interval returned".into());
    }
    if ivs[0].start != 0 {
        return Err(format!("first interval starts at {}", ivs[0].start));
    }
    let pscore: Vec<usize> = (0..=m - p).map(|i| score_of(sc, &seq[i..i + p])).collect();
    for (i, iv) in ivs.iter().enumerate() {
        if iv.len < k || iv.len > 2 * k - p {
            return Err(format!("interval {} has length {} outside [{}, {}]", i, iv.len, k, 2 * k - p));
        }
        if iv.start + iv.len > m {
            return Err(format!("interval {} runs past the sequence end", i));
        }
        if i + 1 < ivs.len() {
            let want = iv.start + iv.len - k + 1;
            if ivs[i + 1].start != want {
                return Err(format!(
                    "interval {} starts at {} but the previous one [{}..{}) requires {} (overlap must be exactly k-1)",
                    i + 1,
                    ivs[i + 1].start,
                    iv.start,
                    iv.start + iv.len,
                    want
                ));
            }
        } else if iv.start + iv.len != m {
            return Err(format!("last interval ends at {} not at the sequence end {}", iv.start + iv.len, m));
        }
        if iv.mpos + p > m || seq[iv.mpos..iv.mpos + p] != iv.minimizer[..] {
            return Err(format!(
                "interval {}: minimizer {} is not the p-mer at position {}",
                i,
                to_ascii(&iv.minimizer),
                iv.mpos
            ));
        }
        let last_kmer_start = iv.start + iv.len - k;
        if iv.mpos < last_kmer_start || iv.mpos + p > iv.start + k {
            return Err(format!(
                "interval {} [{}..{}): minimizer at {} is not inside every k-mer",
                i,
                iv.start,
                iv.start + iv.len,
                iv.mpos
            ));
        }
        let ms = pscore[iv.mpos];
        for q in iv.start..=iv.start + iv.len - p {
            if pscore[q] < ms {
                return Err(format!(
                    "interval {} [{}..{}): p-mer at {} scores {} < minimizer score {}",
                    i,
                    iv.start,
                    iv.start + iv.len,
                    q,
                    pscore[q],
                    ms
                ));
            }
        }
        if i + 1 < ivs.len() {
            let j = iv.start + iv.len - k + 1; // start of the next k-mer
            if iv.mpos >= j {
                // the next k-mer still contains the minimizer: it must bring a strictly better p-mer
                let newp = j + k - p;
                if !(pscore[newp] < ms) {
                    return Err(format!(
                        "interval {} ended at {} although the next k-mer still contains its minimizer (pos {}) and its new p-mer scores {} >= {}",
                        i, iv.start + iv.len, iv.mpos, pscore[newp], ms
                    ));
                }
            }
        }
    }
    Ok(())
}

fn to_ivs<P: Kmer>(v: &[MspIntervalP<P>]) -> Vec<Iv> {
    v.iter()
        .map(|x| Iv {
            start: x.start as usize,
            len: x.len as usize,
            mpos: x.minimizer_pos as usize,
            minimizer: kseq(&x.minimizer),
        })
        .collect()
}

fn scan_with<P: Kmer, V: Vmer>(v: &V, k: usize, sc: &Score) -> Vec<Iv> {
    let score = |pm: &P| score_of(sc, &kseq(pm));
    let scanner = Scanner::new(v, score, k);
    let first = to_ivs(&scanner.scan());
    // scan() takes &self: asking the same scanner again must give the same intervals (every third length)
    if v.len() % 3 == 0 {
        let again = to_ivs(&scanner.scan());
        let key = |x: &Iv| (x.start, x.len, x.mpos, x.minimizer.clone());
        if first.iter().map(key).collect::<Vec<_>>() != again.iter().map(key).collect::<Vec<_>>() {
            panic!("a second scan() on the same Scanner gives different intervals ({} vs {})", first.len(), again.len());
        }
    }
    first
}

pub fn scan_container<P: Kmer>(seq: &[u8], k: usize, sc: &Score, container: u8) -> (Vec<Iv>, &'static str) {
    let n = seq.len();
    match container {
        0 => (scan_with::<P, _>(&DnaSlice(seq), k, sc), "DnaSlice"),
        1 => (scan_with::<P, _>(&DnaBytes(seq.to_vec()), k, sc), "DnaBytes"),
        2 => (scan_with::<P, _>(&DnaString::from_bytes(seq), k, sc), "DnaString"),
        _ => {
            if n <= 28 {
                (scan_with::<P, _>(&Lmer::<[u64; 1]>::from_slice(seq), k, sc), "Lmer1")
            } else if n <= 60 {
                (scan_with::<P, _>(&Lmer::<[u64; 2]>::from_slice(seq), k, sc), "Lmer2")
            } else if n <= 92 {
                (scan_with::<P, _>(&Lmer::<[u64; 3]>::from_slice(seq), k, sc), "Lmer3")
            } else if n <= 188 {
                (scan_with::<P, _>(&Lmer::<[u64; 6]>::from_slice(seq), k, sc), "Lmer6")
            } else {
                (scan_with::<P, _>(&DnaString::from_bytes(seq), k, sc), "DnaString")
            }
        }
    }
}

pub fn check<P: Kmer>(c: &Case) -> CheckResult {
    let p = P::k();
    let k = p + c.k_extra as usize;
    if c.seq.len() < k {
        return Err("malformed case".into());
    }
    let (ivs, cname) = scan_container::<P>(&c.seq, k, &c.score, c.container);
    validate(&c.seq, k, p, &ivs, &c.score).map_err(|e| format!("{} (container {})", e, cname))?;

    // the deprecated table-driven front end must agree with Scanner under the equivalent score
    let mut simple = false;
    if p <= 6 {
        if let Score::Perm(seed) | Score::PermRc(seed) = &c.score {
            let rcmode = matches!(c.score, Score::PermRc(_));
            let table: Vec<usize> = (0..(1u64 << (2 * p))).map(|x| bij(x, 2 * p as u32, *seed) as usize).collect();
            #[allow(deprecated)]
            let got = debruijn::msp::simple_scan::<_, P>(k, &DnaSlice(&c.seq), &table, rcmode);
            let reference = scan_with::<P, _>(&DnaSlice(&c.seq), k, &c.score);
            if got.len() != reference.len() {
                return Err(format!("simple_scan returned {} intervals, Scanner {}", got.len(), reference.len()));
            }
            for (g, r) in got.iter().zip(reference.iter()) {
                let b = rank(&canon(&r.minimizer, false)) as u16;
                if g.start() != r.start
                    || g.len() != r.len
                    || g.end() != r.start + r.len
                    || g.range() != (r.start..r.start + r.len)
                    || g.is_empty()
                    || g.bucket() != b
                {
                    return Err(format!(
                        "simple_scan interval {:?} disagrees with Scanner interval start {} len {} bucket {}",
                        g, r.start, r.len, b
                    ));
                }
            }
            simple = true;
        }
    }
    // msp_sequence with the default permutation is the same scan under the rank score; it must not depend on
    // what was scanned before (fresh thread, a call for a smaller p-mer type first)
    let mut msp = false;
    if p <= 8 && matches!(c.score, Score::Rank) {
        let seq = &c.seq;
        let res = std::thread::scope(|sc| {
            sc.spawn(move || {
                let _ = debruijn::msp::msp_sequence::<crate::ktypes::Kmer2, DnaBytes>(k, seq, None, false);
                debruijn::msp::msp_sequence::<P, DnaBytes>(k, seq, None, false)
            })
            .join()
        });
        let pieces = res.map_err(|_| "msp_sequence panicked".to_string())?;
        if pieces.len() != ivs.len() {
            return Err(format!("msp_sequence (default permutation) gives {} pieces, Scanner with the rank score {} intervals", pieces.len(), ivs.len()));
        }
        let mut start = 0usize;
        for (pc, iv) in pieces.iter().zip(ivs.iter()) {
            let len = pc.2 .0.len();
            if start != iv.start || len != iv.len || pc.0 as u64 != rank(&canon(&iv.minimizer, false)) {
                return Err(format!(
                    "msp_sequence piece at {} (len {}, bucket {}) disagrees with the Scanner interval at {} (len {}, minimizer rank {})",
                    start,
                    len,
                    pc.0,
                    iv.start,
                    iv.len,
                    rank(&canon(&iv.minimizer, false))
                ));
            }
            start += len + 1 - k;
        }
        msp = true;
    }
    let tied = match &c.score {
        Score::Const(_) | Score::Mod(_) | Score::AtCount => true,
        _ => false,
    };
    Ok(Outcome::new(ivs.len() >= 2)
        .label(tied, "tied_scores")
        .label(matches!(c.score, Score::Const(_)), "constant_score")
        .label(k == p, "k==p")
        .label(ivs.len() >= 2, "intervals>=2")
        .label(ivs.len() >= 10, "intervals>=10")
        .label(c.seq.len() == k, "len==k")
        .label(simple, "simple_scan_compared")
        .label(msp, "msp_sequence_compared")
        .label(cname.starts_with("Lmer"), "container_lmer"))
}

fn build<P: Kmer + 'static>(name: &'static str, _env: &Env) -> Vec<Box<dyn Job>> {
    let p = P::k();
    vec![PropJob::new(
        format!("scan/{}", name),
        1200,
        40000,
        move |e: &Env| case_strategy(p, e),
        |c: &Case| check::<P>(c),
    )
    .with_render(move |c: &Case| json!({"seq": to_ascii(&c.seq), "k": p + c.k_extra as usize, "p": p}))
    .boxed()]
}

#[cfg(not(fuzzing))]
pub fn jobs(env: &Env) -> Vec<Box<dyn Job>> {
    let mut out: Vec<Box<dyn Job>> = Vec::new();
    crate::kmers_list!(build, out, env; Kmer2, Kmer3, Kmer4, Kmer4v, Kmer5, Kmer6, Kmer8, Kmer10, Kmer12,
        Kmer14, Kmer15, Kmer16, Kmer20, Kmer24, Kmer30, Kmer31, Kmer32, Kmer40, Kmer48, Kmer64);
    out
}
