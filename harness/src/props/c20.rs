//! C20 — exports and persistence are faithful.

use std::collections::{BTreeMap, BTreeSet};
use std::fmt::Debug;

use debruijn::dna_string::{DnaString, PackedDnaStringSet};
use debruijn::graph::{BaseGraph, DebruijnGraph};
use debruijn::vmer::Lmer;
use debruijn::{Dir, Exts, Kmer, Mer, Vmer};
use proptest::prelude::*;
use serde::de::DeserializeOwned;
use serde::{Deserialize, Serialize};
use serde_json::{json, Value};

use crate::gen;
use crate::gmodel::{d2u, u2d, GModel, Link};
use crate::ktypes::kseq;
use crate::model::{self, LEFT, RIGHT};
use crate::pipeline::{build_base, SumPay};
use crate::props::c03::check_edges;
use crate::props::gcase::{gcase, GCase};
use crate::runner::{CheckResult, Env, Job, Outcome, PropJob};
use crate::util::{canon, rc, splitmix, to_ascii, Seq};

pub const RULE: &str = "values: for every k-mer type (generated values incl. all-T / high-lane patterns, u128 storage), Lmer of 1..3 words, DnaString (lengths incl. 0 and multiples of 32), all 256 Exts, Dir, PackedDnaStringSet and BaseGraph: serde_json round trip gives an equal value (and equal rendering). graphs: finished graphs from generated read sets (both strandedness values, thresholds, three entry points; empty, single-node, link-free graphs, last node without right link, left/right hairpins, circular self-links and palindromic single-k-mer nodes all occur and are labelled): serde round trip answers every query identically (nodes, edges, find_link for present and absent k-mers); write_gfa / to_gfa / to_gfa_with_tags (the two file exports onto longer pre-existing files) are parsed: one S line per node with the exact sequence (and tags), every L has overlap (K-1)M, its oriented segments really overlap by K-1, its (K+1)-mer is an adjacency of the graph, and the multiset of L lines covers every resolvable inter-node adjacency exactly once (1 or 2 times when it touches a palindromic single-k-mer node); to_json_rest / to_json output parses with serde_json, lists every node (id, length, data, sequence when shorter than 256) and exactly the right-going edges in order, with and without extra top-level members. Non-trivial = graph has >= 1 link.";
pub const TECHNIQUE: &str = "seeded proptest; serde round-trip equality + independent GFA/JSON parsers compared with the graph's adjacency set";

fn roundtrip<T: Serialize + DeserializeOwned>(what: &str, x: &T) -> Result<T, String> {
    let s = serde_json::to_string(x).map_err(|e| format!("{}: serialisation failed: {}", what, e))?;
    serde_json::from_str::<T>(&s).map_err(|e| format!("{}: reading back failed: {} (text {})", what, e, &s[..s.len().min(120)]))
}

#[derive(Debug, Clone, Serialize, Deserialize)]
pub struct VCase {
    pub kmer: Seq,
    pub seq: Seq,
    pub set: Vec<Seq>,
    pub exts: u8,
}

fn vcase(k: usize) -> BoxedStrategy<VCase> {
    (
        prop_oneof![4 => gen::kmer_seq(k), 1 => Just(vec![3u8; k]), 1 => Just(vec![0u8; k])],
        gen::dna(200),
        proptest::collection::vec(gen::dna(60), 0..5),
        any::<u8>(),
    )
        .prop_map(|(kmer, seq, set, exts)| VCase { kmer, seq, set, exts })
        .boxed()
}

fn check_values<K: Kmer + Serialize + DeserializeOwned>(c: &VCase) -> CheckResult {
    let km = K::from_bytes(&c.kmer);
    let back = roundtrip("k-mer", &km)?;
    if back != km || kseq(&back) != c.kmer {
        return Err(format!("k-mer {} reads back as {}", to_ascii(&c.kmer), to_ascii(&kseq(&back))));
    }
    let rk = km.rc();
    if roundtrip("k-mer (rc)", &rk)? != rk {
        return Err("reverse-complemented k-mer does not round-trip".into());
    }
    // DnaString
    let d = DnaString::from_bytes(&c.seq);
    let db = roundtrip("DnaString", &d)?;
    if db != d || db.to_bytes() != c.seq || db.len() != c.seq.len() {
        return Err(format!("DnaString {} reads back as {}", to_ascii(&c.seq), to_ascii(&db.to_bytes())));
    }
    // Lmer
    macro_rules! lm {
        ($w:expr) => {
            if c.seq.len() <= ($w * 64 - 8) / 2 {
                let l = Lmer::<[u64; $w]>::from_slice(&c.seq);
                let lb = roundtrip("Lmer", &l)?;
                if lb != l || lb.len() != c.seq.len() || (0..lb.len()).any(|i| lb.get(i) != c.seq[i]) {
                    return Err(format!("Lmer<{} words> does not round-trip", $w));
                }
            }
        };
    }
    lm!(1);
    lm!(2);
    lm!(3);
    // Exts / Dir
    let e = Exts::new(c.exts);
    if roundtrip("Exts", &e)? != e {
        return Err("Exts does not round-trip".into());
    }
    for d0 in [Dir::Left, Dir::Right] {
        let b = roundtrip("Dir", &d0)?;
        if d2u(b) != d2u(d0) {
            return Err("Dir does not round-trip".into());
        }
    }
    // packed set and base graph
    let mut set = PackedDnaStringSet::new();
    for s in &c.set {
        set.add(s.iter());
    }
    let sb = roundtrip("PackedDnaStringSet", &set)?;
    if sb.len() != c.set.len() || (0..c.set.len()).any(|i| sb.get(i).bytes() != c.set[i]) {
        return Err("PackedDnaStringSet does not round-trip".into());
    }
    let k = K::k();
    let mut bg: BaseGraph<K, (u32, String)> = BaseGraph::new(c.exts & 1 == 1);
    for (i, s) in c.set.iter().enumerate() {
        if s.len() >= k {
            bg.add(s.iter(), Exts::new(c.exts.wrapping_mul(i as u8 + 1)), (i as u32, format!("n{}", i)));
        }
    }
    let bb = roundtrip("BaseGraph", &bg)?;
    if bb.len() != bg.len()
        || bb.stranded != bg.stranded
        || bb.exts != bg.exts
        || bb.data != bg.data
        || (0..bg.len()).any(|i| bb.sequences.get(i).bytes() != bg.sequences.get(i).bytes())
    {
        return Err("BaseGraph does not round-trip".into());
    }
    Ok(Outcome::new(c.kmer.iter().any(|b| *b != 0))
        .label(c.seq.len() % 32 == 0, "len_multiple_of_32")
        .label(std::mem::size_of::<K>() == 16, "u128_storage")
        .label(bg.len() >= 1, "base_graph_nonempty"))
}

// ------------------------------------------------------------------------------------------------

struct Shape {
    links: usize,
    self_left: bool,
    self_right: bool,
    circular: bool,
    last_no_right: bool,
    pal_node: bool,
}

fn query_all<K: Kmer, D: Debug + Clone + PartialEq>(g: &DebruijnGraph<K, D>, probes: &[(Seq, u8)]) -> (Vec<(Seq, u8, D)>, Vec<Vec<Link>>, Vec<Option<Link>>) {
    let mut nodes = Vec::new();
    let mut edges = Vec::new();
    for i in 0..g.len() {
        let n = g.get_node(i);
        nodes.push((n.sequence().bytes(), n.exts().val, n.data().clone()));
        for d in [Dir::Left, Dir::Right] {
            edges.push(n.edges(d).into_iter().map(|e| (e.0, d2u(e.1), e.2)).collect());
        }
    }
    let links = probes
        .iter()
        .map(|(p, d)| g.find_link(K::from_bytes(p), u2d(*d)).map(|e| (e.0, d2u(e.1), e.2)))
        .collect();
    (nodes, edges, links)
}

fn orient(seq: &[u8], sign: &str) -> Result<Seq, String> {
    match sign {
        "+" => Ok(seq.to_vec()),
        "-" => Ok(rc(seq)),
        x => Err(format!("GFA: bad orientation '{}'", x)),
    }
}

/// Parse a GFA text and compare it with the graph.
fn check_gfa<K: Kmer>(
    what: &str,
    text: &str,
    gm: &GModel<SumPay>,
    edge_w: &BTreeSet<Seq>,
    tags: Option<&dyn Fn(usize) -> String>,
) -> Result<(), String> {
    let k = K::k();
    let ctx = |e: String| format!("{}: {}", what, e);
    let lines = text.lines();
    let mut seen_s: BTreeMap<usize, Seq> = BTreeMap::new();
    let mut lcount: BTreeMap<Seq, usize> = BTreeMap::new();
    let mut pending: Vec<(usize, String, usize, String, String)> = Vec::new();
    for line in lines {
        let f: Vec<&str> = line.split('\t').collect();
        match f[0] {
            "H" | "#" => {}
            "S" => {
                if f.len() < 3 {
                    return Err(ctx(format!("malformed S line '{}'", line)));
                }
                let id: usize = f[1].parse().map_err(|_| ctx(format!("bad segment id in '{}'", line)))?;
                if id >= gm.nodes.len() {
                    return Err(ctx(format!("S line for unknown node {}", id)));
                }
                if f[2] != to_ascii(&gm.nodes[id].seq) {
                    return Err(ctx(format!(
                        "S line of node {} carries '{}' but the node's sequence is {}",
                        id,
                        &f[2][..f[2].len().min(80)],
                        to_ascii(&gm.nodes[id].seq)
                    )));
                }
                match tags {
                    Some(t) => {
                        let want = t(id);
                        if f.len() != 4 || f[3] != want {
                            return Err(ctx(format!("S line of node {} has tags {:?}, want '{}'", id, f.get(3), want)));
                        }
                    }
                    None => {} // optional tags after the sequence are legal GFA
                }
                if seen_s.insert(id, gm.nodes[id].seq.clone()).is_some() {
                    return Err(ctx(format!("node {} is listed twice", id)));
                }
            }
            "L" => {
                if f.len() < 6 {
                    return Err(ctx(format!("malformed L line '{}'", line)));
                }
                let a: usize = f[1].parse().map_err(|_| ctx(format!("bad id in '{}'", line)))?;
                let b: usize = f[3].parse().map_err(|_| ctx(format!("bad id in '{}'", line)))?;
                pending.push((a, f[2].to_string(), b, f[4].to_string(), f[5].to_string()));
            }
            other => return Err(ctx(format!("unexpected record type '{}'", other))),
        }
    }
    if seen_s.len() != gm.nodes.len() {
        return Err(ctx(format!("{} S lines for {} nodes", seen_s.len(), gm.nodes.len())));
    }
    for (a, sa, b, sb, ov) in pending {
        if a >= gm.nodes.len() || b >= gm.nodes.len() {
            return Err(ctx(format!("L line references unknown node ({} or {})", a, b)));
        }
        if ov != format!("{}M", k - 1) {
            return Err(ctx(format!("L {} {} {} {} has overlap '{}', want {}M", a, sa, b, sb, ov, k - 1)));
        }
        let oa = orient(&gm.nodes[a].seq, &sa).map_err(&ctx)?;
        let ob = orient(&gm.nodes[b].seq, &sb).map_err(&ctx)?;
        if oa[oa.len() - (k - 1)..] != ob[..k - 1] {
            return Err(ctx(format!(
                "L {} {} {} {}: the oriented segments do not overlap by K-1 (...{} vs {}...)",
                a,
                sa,
                b,
                sb,
                to_ascii(&oa[oa.len() - (k - 1)..]),
                to_ascii(&ob[..k - 1])
            )));
        }
        let mut w = oa[oa.len() - k..].to_vec();
        w.push(ob[k - 1]);
        let key = if gm.stranded {
            // a link written with both segments reversed is the reverse-complement spelling of a forward link
            match (sa.as_str(), sb.as_str()) {
                ("+", "+") => w,
                ("-", "-") => rc(&w),
                _ => return Err(ctx(format!("L {} {} {} {}: strand-flipping link in a stranded graph", a, sa, b, sb))),
            }
        } else {
            canon(&w, false)
        };
        if !edge_w.contains(&key) {
            return Err(ctx(format!(
                "L {} {} {} {} denotes {} which is not an adjacency of the graph",
                a,
                sa,
                b,
                sb,
                to_ascii(&key)
            )));
        }
        *lcount.entry(key).or_insert(0) += 1;
    }
    // every adjacency listed, exactly once (1..2 when it touches a palindromic single-k-mer node)
    let pal_kmers: BTreeSet<Seq> = (0..gm.nodes.len()).filter(|i| gm.is_pal_single(*i)).map(|i| gm.nodes[i].seq.clone()).collect();
    for w in edge_w {
        let n = lcount.get(w).cloned().unwrap_or(0);
        let touches_pal = pal_kmers.contains(&w[..k]) || pal_kmers.contains(&w[1..]) || pal_kmers.contains(&rc(&w)[..k]) || pal_kmers.contains(&rc(&w)[1..]);
        let ok = if touches_pal { n == 1 || n == 2 } else { n == 1 };
        if !ok {
            return Err(ctx(format!(
                "adjacency {} is listed {} times in the GFA links (expected {})",
                to_ascii(w),
                n,
                if touches_pal { "1 or 2" } else { "exactly 1" }
            )));
        }
    }
    Ok(())
}

fn check_json<K: Kmer>(
    what: &str,
    text: &str,
    g: &DebruijnGraph<K, SumPay>,
    gm: &GModel<SumPay>,
    rest: Option<&Value>,
) -> Result<(), String> {
    let ctx = |e: String| format!("{}: {}", what, e);
    let v: Value = serde_json::from_str(text).map_err(|e| ctx(format!("output is not well-formed JSON: {}", e)))?;
    let nodes = v.get("nodes").and_then(|x| x.as_array()).ok_or_else(|| ctx("no 'nodes' array".into()))?;
    if nodes.len() != gm.nodes.len() {
        return Err(ctx(format!("{} node records for {} nodes", nodes.len(), gm.nodes.len())));
    }
    let mut seen_ids: BTreeSet<usize> = BTreeSet::new();
    for n in nodes.iter() {
        // records are matched to nodes by their id field (the order of records is not part of the property)
        let i: usize = n["id"]
            .as_str()
            .and_then(|x| x.parse().ok())
            .or_else(|| n["id"].as_u64().map(|x| x as usize))
            .ok_or_else(|| ctx(format!("node record without a usable id: {}", n)))?;
        if i >= gm.nodes.len() || !seen_ids.insert(i) {
            return Err(ctx(format!("node id {} is out of range or listed twice", i)));
        }
        if n["L"] != json!(gm.nodes[i].seq.len()) {
            return Err(ctx(format!("node record {} has length {}", i, n["L"])));
        }
        if n["D"] != json!({"count": gm.nodes[i].data.count, "n": gm.nodes[i].data.n}) {
            return Err(ctx(format!("node record {} carries data {}", i, n["D"])));
        }
        if gm.nodes[i].seq.len() < 256 && n["Se"] != json!(to_ascii(&gm.nodes[i].seq)) {
            return Err(ctx(format!("node record {} carries sequence {}", i, n["Se"])));
        }
    }
    let links = v.get("links").and_then(|x| x.as_array()).ok_or_else(|| ctx("no 'links' array".into()))?;
    let mut want: Vec<Value> = Vec::new();
    for i in 0..g.len() {
        for (t, d, _) in g.get_node(i).r_edges() {
            want.push(json!({"source": i.to_string(), "target": t.to_string(), "D": if d2u(d) == LEFT { "L" } else { "R" }}));
        }
    }
    {
        let key = |v: &Value| serde_json::to_string(v).unwrap_or_default();
        let mut a: Vec<String> = links.iter().map(key).collect();
        let mut b: Vec<String> = want.iter().map(key).collect();
        a.sort();
        b.sort();
        if a != b {
            return Err(ctx(format!(
                "links array has {} records, the graph has {} right-going edges; first record not matched: {:?}",
                links.len(),
                want.len(),
                a.iter().find(|x| !b.contains(x)).or_else(|| b.iter().find(|x| !a.contains(x)))
            )));
        }
    }
    if let Some(Value::Object(r)) = rest {
        for (key, val) in r {
            if v.get(key) != Some(val) {
                return Err(ctx(format!("extra member '{}' missing or changed", key)));
            }
        }
    }
    Ok(())
}

fn check_graph<K: Kmer + Send + Sync + Serialize + DeserializeOwned>(c: &GCase) -> CheckResult {
    let k = K::k();
    let reads = c.reads(k);
    let (base, _seen) = build_base::<K, SumPay>(&reads, c.stranded, c.min_count(), c.entry)?;
    let mut g = if c.aux & 1 == 0 { base.finish() } else { base.finish_serial() };
    if c.aux & 2 == 0 {
        g.fix_exts(None);
    }
    let gm = GModel::of_graph(&g);
    let (edge_w, st) = check_edges(&g, &gm)?;

    // shape labels
    let mut shape = Shape {
        links: st.resolvable,
        self_left: false,
        self_right: false,
        circular: false,
        last_no_right: false,
        pal_node: st.pal_single_nodes > 0,
    };
    for i in 0..g.len() {
        for (t, d, f) in g.get_node(i).l_edges() {
            if t == i && d2u(d) == LEFT && f {
                shape.self_left = true;
            }
            if t == i && d2u(d) == RIGHT && !f {
                shape.circular = true;
            }
        }
        for (t, d, f) in g.get_node(i).r_edges() {
            if t == i && d2u(d) == RIGHT && f {
                shape.self_right = true;
            }
        }
    }
    if g.len() >= 2 {
        let last_has = !g.get_node(g.len() - 1).r_edges().is_empty();
        let earlier_has = (0..g.len() - 1).any(|i| !g.get_node(i).r_edges().is_empty());
        shape.last_no_right = !last_has && earlier_has;
    }

    // serde round trip of the whole graph (with its indexes)
    let mut stt = c.aux;
    let mut probes: Vec<(Seq, u8)> = Vec::new();
    for i in 0..gm.nodes.len().min(30) {
        for side in [LEFT, RIGHT] {
            let t = gm.term(i, side).to_vec();
            let mut m = t.clone();
            let p = (splitmix(&mut stt) % k as u64) as usize;
            m[p] = (m[p] + 1) % 4;
            for d in [LEFT, RIGHT] {
                probes.push((t.clone(), d));
                probes.push((rc(&t), d));
                probes.push((m.clone(), d));
            }
        }
    }
    let before = query_all(&g, &probes);
    let text = serde_json::to_string(&g).map_err(|e| format!("graph serialisation failed: {}", e))?;
    let back: DebruijnGraph<K, SumPay> = serde_json::from_str(&text).map_err(|e| format!("graph does not read back: {}", e))?;
    if back.len() != g.len() || back.base.stranded != g.base.stranded {
        return Err("graph read back with a different node count / strandedness".into());
    }
    let after = query_all(&back, &probes);
    if before != after {
        return Err("graph read back from JSON answers queries differently (nodes / edges / find_link)".into());
    }

    // GFA, three front ends
    let mut buf: Vec<u8> = Vec::new();
    g.write_gfa(&mut buf).map_err(|e| format!("write_gfa: {}", e))?;
    let gfa = String::from_utf8(buf).map_err(|_| "write_gfa: not UTF-8".to_string())?;
    check_gfa::<K>("write_gfa", &gfa, &gm, &edge_w, None)?;
    let dir = std::env::temp_dir();
    let uniq = format!("dbgv-{}-{:x}-{:?}", std::process::id(), c.aux, std::thread::current().id()).replace(|ch: char| !ch.is_ascii_alphanumeric() && ch != '-', "");
    let p1 = dir.join(format!("{}.gfa", uniq));
    let p2 = dir.join(format!("{}.tags.gfa", uniq));
    // scratch files go away on every exit path (early return, panic caught by the runner)
    struct Rm(std::path::PathBuf, std::path::PathBuf);
    impl Drop for Rm {
        fn drop(&mut self) {
            let _ = std::fs::remove_file(&self.0);
            let _ = std::fs::remove_file(&self.1);
        }
    }
    let _rm = Rm(p1.clone(), p2.clone());
    // the target paths already hold longer files: an export must replace them, not overwrite a prefix
    let stale = format!("{}S\t999999\tACGTACGT\nL\t999999\t+\t999999\t+\t3M\n{}", gfa, "X".repeat(64));
    std::fs::write(&p1, &stale).map_err(|e| e.to_string())?;
    std::fs::write(&p2, &stale).map_err(|e| e.to_string())?;
    let r1 = g.to_gfa(&p1).map_err(|e| format!("to_gfa: {}", e)).and_then(|_| std::fs::read_to_string(&p1).map_err(|e| e.to_string()));
    let _ = std::fs::remove_file(&p1);
    let t1 = r1?;
    if t1 != gfa {
        return Err("to_gfa writes a different file than write_gfa".into());
    }
    let tagf = |id: usize| format!("DP:i:{}\tLN:i:{}", gm.nodes[id].data.count, gm.nodes[id].seq.len());
    let r2 = g
        .to_gfa_with_tags(&p2, |n| format!("DP:i:{}\tLN:i:{}", n.data().count, n.len()))
        .map_err(|e| format!("to_gfa_with_tags: {}", e))
        .and_then(|_| std::fs::read_to_string(&p2).map_err(|e| e.to_string()));
    let _ = std::fs::remove_file(&p2);
    let t2 = r2?;
    // tags contain a tab: compare tag fields joined
    let t2n: String = t2
        .lines()
        .map(|l| {
            let f: Vec<&str> = l.split('\t').collect();
            if f[0] == "S" && f.len() == 5 {
                format!("S\t{}\t{}\t{}|{}", f[1], f[2], f[3], f[4])
            } else {
                l.to_string()
            }
        })
        .collect::<Vec<_>>()
        .join("\n");
    let tagf2 = |id: usize| tagf(id).replace('\t', "|");
    check_gfa::<K>("to_gfa_with_tags", &t2n, &gm, &edge_w, Some(&tagf2))?;

    // JSON
    let fmt = |d: &SumPay| json!({"count": d.count, "n": d.n});
    let mut jb: Vec<u8> = Vec::new();
    g.to_json_rest(fmt, &mut jb, None);
    let jt = String::from_utf8(jb).map_err(|_| "to_json_rest: not UTF-8".to_string())?;
    check_json::<K>("to_json_rest(None)", &jt, &g, &gm, None)?;
    let rest = json!({"k": k, "name": "graph \"x\"", "list": [1, 2, {"a": null}]});
    let mut jb: Vec<u8> = Vec::new();
    g.to_json_rest(fmt, &mut jb, Some(rest.clone()));
    let jt2 = String::from_utf8(jb).map_err(|_| "to_json_rest: not UTF-8".to_string())?;
    check_json::<K>("to_json_rest(Some)", &jt2, &g, &gm, Some(&rest))?;
    let mut jb: Vec<u8> = Vec::new();
    g.to_json::<_, _, fn(&mut Vec<u8>)>(fmt, &mut jb);
    let jt3 = String::from_utf8(jb).map_err(|_| "to_json: not UTF-8".to_string())?;
    if jt3 != jt {
        return Err("to_json differs from to_json_rest(None)".into());
    }

    Ok(Outcome::new(shape.links >= 1)
        .label(g.len() == 0, "empty_graph")
        .label(g.len() == 1, "single_node")
        .label(g.len() > 0 && shape.links == 0, "link_free")
        .label(shape.self_left, "self_link_left_hairpin")
        .label(shape.self_right, "self_link_right_hairpin")
        .label(shape.circular, "self_link_circular")
        .label(shape.last_no_right, "last_node_no_right_link")
        .label(shape.pal_node, "palindrome_node")
        .label(gm.nodes.iter().any(|n| n.seq.len() >= 256), "node_len>=256")
        .label(c.stranded, "stranded"))
}

fn build_values<K: Kmer + Serialize + DeserializeOwned + 'static>(name: &'static str, _env: &Env) -> Vec<Box<dyn Job>> {
    let k = K::k();
    vec![PropJob::new(format!("serde_values/{}", name), 300, 8000, move |_e: &Env| vcase(k), |c: &VCase| check_values::<K>(c)).boxed()]
}

fn build_graph<K: Kmer + Send + Sync + Serialize + DeserializeOwned + 'static>(name: &'static str, _env: &Env) -> Vec<Box<dyn Job>> {
    let k = K::k();
    let (q, t) = if k <= 8 { (300, 10000) } else { (100, 3000) };
    vec![PropJob::new(
        format!("graph_export/{}", name),
        q,
        t,
        move |e: &Env| {
            // longer reads now and then, so that nodes of >= 256 bases (abbreviated Debug form) occur
            let base = gcase(k, e, false);
            let long = (gcase(k, e, false), gen::dna(700)).prop_map(|(mut g, extra)| {
                g.rs.recipes.push((crate::gen::reads::Recipe::Raw(extra), 0));
                g
            });
            prop_oneof![5 => base, 1 => long].boxed()
        },
        |c: &GCase| check_graph::<K>(c),
    )
    .with_render(move |c: &GCase| json!({"reads": c.rs.render(k), "stranded": c.stranded}))
    .boxed()]
}

#[cfg(not(fuzzing))]
pub fn jobs(env: &Env) -> Vec<Box<dyn Job>> {
    let mut out: Vec<Box<dyn Job>> = Vec::new();
    crate::kmers_ge4!(build_graph, out, env);
    crate::kmers_all!(build_values, out, env);
    out
}

#[allow(dead_code)]
fn _unused(_: model::Read) -> usize {
    <DnaString as Vmer>::max_len()
}
