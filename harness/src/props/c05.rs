//! C05 — k-mer counting/filtering equals reference grouping for any pass count.

use std::collections::BTreeSet;
use std::fmt::Debug;

use boomphf::hashmap::BoomHashMap2;
use debruijn::dna_string::{DnaString, DnaStringSlice};
use debruijn::filter::{filter_kmers, CountFilter, CountFilterSet, KmerSummarizer};
use debruijn::vmer::Lmer;
use debruijn::{DnaBytes, Exts, Kmer, Mer, Vmer};
use proptest::prelude::*;
use serde::{Deserialize, Serialize};
use serde_json::json;

use crate::gen::reads::{read_set, ReadSet};
use crate::ktypes::kseq;
use crate::model::{self, Read, Table};
use crate::runner::{CheckResult, Env, Job, Outcome, PropJob};
use crate::util::{is_pal, rc, splitmix, to_ascii, Seq};

pub const RULE: &str = "case = read set with per-read labels and arbitrary caller-supplied boundary extension bytes, read container in {DnaBytes, DnaString, Lmer<6 words>, forward DnaStringSlice at an offset, reverse-complemented DnaStringSlice}, stranded flag, report_all_kmers flag, summarizer in {CountFilter(n), CountFilterSet(n), recording summarizer} with n from 0 to above the maximum count and around / above 65 536, and a memory budget chosen through the verif_hooks memory-unit override so that the planned number of bucket slices ranges over 1..>=257 (pass counts 1..256, read back from the hook counter). Oracle = string-level grouping: key set, iteration and get() for every model key and for absent k-mers, count = min(#obs,65535), sorted de-duplicated labels, observation list in input order (recorder), extension unions (palindromes up to E∪rc(E)), all_kmers ascending or empty. Non-trivial = some k-mer observed >= 2 times; labels record the pass counts actually made.";
pub const TECHNIQUE: &str = "seeded proptest against a string-level grouping model; pass count forced through the add-only verif_hooks feature (metamorphic over pass counts)";

#[derive(Debug, Clone, Serialize, Deserialize)]
pub struct Case {
    pub rs: ReadSet,
    pub bexts: Vec<u8>,
    pub stranded: bool,
    pub report_all: bool,
    /// 0 = CountFilter, 1 = CountFilterSet, 2 = recorder
    pub summarizer: u8,
    pub min_obs: u32,
    pub container: u8,
    pub slices: u16,
    pub aux: u64,
}

fn case_strategy(k: usize, env: &Env) -> BoxedStrategy<Case> {
    let max_reads = env.pick(8, 20);
    (
        read_set(k, max_reads, 4),
        proptest::collection::vec(prop_oneof![2 => Just(0u8), 3 => any::<u8>()], max_reads + 1),
        any::<bool>(),
        any::<bool>(),
        0u8..3,
        prop_oneof![12 => 0u32..4, 2 => Just(200u32), 1 => proptest::sample::select(vec![255u32, 256, 65535, 65536, 65537, 131072, 131073, 196610])],
        0u8..5,
        prop_oneof![
            3 => Just(1u16),
            4 => proptest::sample::select(vec![2u16, 3, 4, 5, 7, 8, 16, 31, 32, 33, 64, 127, 128, 129, 255, 256, 257, 1000]),
            3 => 1u16..300,
        ],
        any::<u64>(),
    )
        .prop_map(|(rs, bexts, stranded, report_all, summarizer, min_obs, container, slices, aux)| Case {
            rs,
            bexts,
            stranded,
            report_all,
            summarizer,
            min_obs,
            container,
            slices,
            aux,
        })
        .boxed()
}

/// A summarizer that hands back exactly what it was given (in the order it was given).
pub struct Recorder;
impl KmerSummarizer<u32, Vec<(u8, u32)>> for Recorder {
    fn summarize<K, F: Iterator<Item = (K, Exts, u32)>>(&self, items: F) -> (bool, Exts, Vec<(u8, u32)>) {
        let mut all = Exts::empty();
        let mut v = Vec::new();
        for (_, e, d) in items {
            all = all.add(e);
            v.push((e.val, d));
        }
        (true, all, v)
    }
}

pub struct Got<DS> {
    pub entries: Vec<(Seq, u8, DS)>,
    pub all_kmers: Vec<Seq>,
    pub passes: usize,
    /// get() probes: (k-mer, found?, exts, data)
    pub lookups: Vec<(Seq, Option<(u8, DS)>)>,
}

fn run<K: Kmer, V: Vmer, DS: Debug + Clone, S: KmerSummarizer<u32, DS>>(
    seqs: &[(V, Exts, u32)],
    summ: S,
    stranded: bool,
    report_all: bool,
    slices: usize,
    probes: &[Seq],
) -> Got<DS> {
    let k = K::k();
    let input_kmers: usize = seqs.iter().map(|s| s.0.len().saturating_sub(k - 1)).sum();
    let kmer_mem = input_kmers * std::mem::size_of::<(K, u32)>();
    // slices = kmer_mem / (memory_size * unit) + 1
    let unit = if slices <= 1 || kmer_mem == 0 {
        usize::MAX / 4
    } else {
        (kmer_mem / (slices - 1)).max(1)
    };
    debruijn::verif_hooks::set_mem_unit(Some(unit));
    let (bm, all): (BoomHashMap2<K, Exts, DS>, Vec<K>) = filter_kmers(seqs, &Box::new(summ), stranded, report_all, 1);
    let passes = debruijn::verif_hooks::last_passes();
    debruijn::verif_hooks::set_mem_unit(None);
    let entries = bm.iter().map(|(kk, e, d)| (kseq(kk), e.val, d.clone())).collect();
    let lookups = probes
        .iter()
        .map(|p| (p.clone(), bm.get(&K::from_bytes(p)).map(|(e, d)| (e.val, d.clone()))))
        .collect();
    Got {
        entries,
        all_kmers: all.iter().map(|x| kseq(x)).collect(),
        passes,
        lookups,
    }
}

/// Dispatch over the read container.
fn run_container<K: Kmer, DS: Debug + Clone, S: KmerSummarizer<u32, DS>>(
    reads: &[Read],
    labels: &[u32],
    container: u8,
    summ: S,
    stranded: bool,
    report_all: bool,
    slices: usize,
    probes: &[Seq],
    aux: u64,
) -> (Got<DS>, &'static str) {
    let ex = |r: &Read| Exts::new(r.exts);
    match container {
        1 => {
            let seqs: Vec<(DnaString, Exts, u32)> = reads
                .iter()
                .zip(labels)
                .map(|(r, l)| (DnaString::from_bytes(&r.seq), ex(r), *l))
                .collect();
            (run::<K, _, _, _>(&seqs, summ, stranded, report_all, slices, probes), "DnaString")
        }
        2 if reads.iter().all(|r| r.seq.len() <= 188) => {
            let seqs: Vec<(Lmer<[u64; 6]>, Exts, u32)> = reads
                .iter()
                .zip(labels)
                .map(|(r, l)| (Lmer::<[u64; 6]>::from_slice(&r.seq), ex(r), *l))
                .collect();
            (run::<K, _, _, _>(&seqs, summ, stranded, report_all, slices, probes), "Lmer6")
        }
        3 | 4 => {
            // slices into longer backing strings, at an offset; container 4: stored reverse-complemented and viewed through rc()
            let mut st = aux;
            let flanks: Vec<(usize, usize)> = reads
                .iter()
                .map(|_| ((splitmix(&mut st) % 40) as usize, (splitmix(&mut st) % 40) as usize))
                .collect();
            let backing: Vec<DnaString> = reads
                .iter()
                .zip(flanks.iter())
                .map(|(r, (a, b))| {
                    let body = if container == 4 { rc(&r.seq) } else { r.seq.clone() };
                    let mut v: Seq = (0..*a).map(|i| ((i * 7 + 1) % 4) as u8).collect();
                    v.extend(body);
                    v.extend((0..*b).map(|i| ((i * 5 + 2) % 4) as u8));
                    DnaString::from_bytes(&v)
                })
                .collect();
            let seqs: Vec<(DnaStringSlice, Exts, u32)> = reads
                .iter()
                .enumerate()
                .map(|(i, r)| {
                    let a = flanks[i].0;
                    let s = backing[i].slice(a, a + r.seq.len());
                    let s = if container == 4 { s.rc() } else { s };
                    (s, ex(r), labels[i])
                })
                .collect();
            (
                run::<K, _, _, _>(&seqs, summ, stranded, report_all, slices, probes),
                if container == 4 { "DnaStringSlice(rc)" } else { "DnaStringSlice" },
            )
        }
        _ => {
            let seqs: Vec<(DnaBytes, Exts, u32)> = reads
                .iter()
                .zip(labels)
                .map(|(r, l)| (DnaBytes(r.seq.clone()), ex(r), *l))
                .collect();
            (run::<K, _, _, _>(&seqs, summ, stranded, report_all, slices, probes), "DnaBytes")
        }
    }
}

fn exts_equal(key: &[u8], got: u8, want: u8, stranded: bool) -> bool {
    if !stranded && is_pal(key) {
        model::ext_closure(got) == model::ext_closure(want)
    } else {
        got == want
    }
}

/// Compare everything that does not depend on the summary data type.
fn check_common<DS>(
    got: &Got<DS>,
    t: &Table,
    accept: &dyn Fn(&model::Entry) -> bool,
    stranded: bool,
    report_all: bool,
) -> Result<(), String> {
    let mut seen: BTreeSet<&Seq> = BTreeSet::new();
    for (key, e, _) in &got.entries {
        let ent = t
            .get(key)
            .ok_or_else(|| format!("table contains {} which no read contains (in this strand convention)", to_ascii(key)))?;
        if !accept(ent) {
            return Err(format!(
                "table contains {} although the summarizer rejects it ({} observations)",
                to_ascii(key),
                ent.count()
            ));
        }
        if !seen.insert(key) {
            return Err(format!("k-mer {} appears twice in the table", to_ascii(key)));
        }
        if !exts_equal(key, *e, ent.exts, stranded) {
            return Err(format!(
                "k-mer {}: extension set {:#04x}, reference union of flanking bases {:#04x}",
                to_ascii(key),
                e,
                ent.exts
            ));
        }
    }
    for (key, ent) in t {
        if accept(ent) && !seen.contains(key) {
            return Err(format!(
                "accepted k-mer {} ({} observations) is missing from the table",
                to_ascii(key),
                ent.count()
            ));
        }
    }
    let want_all: Vec<Seq> = if report_all { t.keys().cloned().collect() } else { Vec::new() };
    if got.all_kmers != want_all {
        return Err(format!(
            "all_kmers has {} entries, expected {} (every distinct k-mer ascending when requested, empty otherwise); first difference at index {:?}",
            got.all_kmers.len(),
            want_all.len(),
            got.all_kmers.iter().zip(want_all.iter()).position(|(a, b)| a != b)
        ));
    }
    for (p, res) in &got.lookups {
        let want = t.get(p).map(|e| accept(e)).unwrap_or(false);
        if res.is_some() != want {
            return Err(format!(
                "get({}) is {} but the k-mer is {}",
                to_ascii(p),
                if res.is_some() { "Some" } else { "None" },
                if want { "an accepted key" } else { "not a key" }
            ));
        }
        if let Some((e, _)) = res {
            if !exts_equal(p, *e, t[p].exts, stranded) {
                return Err(format!("get({}) returns other extensions than iteration", to_ascii(p)));
            }
        }
    }
    Ok(())
}

pub fn check<K: Kmer>(c: &Case) -> CheckResult {
    let k = K::k();
    let mut reads = c.rs.materialise(k);
    for (i, r) in reads.iter_mut().enumerate() {
        r.exts = c.bexts[i % c.bexts.len()];
    }
    let t = model::build_table(&reads, k, c.stranded);
    let min = c.min_obs as usize;
    // probes: every model key, plus absent k-mers (rc of keys when stranded, 1-mismatch neighbours, random)
    let mut probes: Vec<Seq> = t.keys().cloned().collect();
    let mut st = c.aux;
    let extra: Vec<Seq> = t
        .keys()
        .take(30)
        .flat_map(|s| {
            let mut m = s.clone();
            let p = (splitmix(&mut st) % k as u64) as usize;
            m[p] = (m[p] + 1 + (splitmix(&mut st) % 3) as u8) % 4;
            vec![rc(s), m]
        })
        .collect();
    probes.extend(extra);
    for _ in 0..6 {
        let r = splitmix(&mut st);
        probes.push((0..k).map(|i| ((r >> (2 * (i % 32))) & 3) as u8).collect());
    }
    let slices = c.slices as usize;
    let max_count = t.values().map(|e| e.count()).max().unwrap_or(0);
    let passes;
    let cname;
    match c.summarizer {
        0 => {
            let labels: Vec<u32> = reads.iter().map(|r| r.label as u32).collect();
            let (got, cn) = run_container::<K, u16, _>(
                &reads, &labels, c.container, CountFilter::new(min), c.stranded, c.report_all, slices, &probes, c.aux,
            );
            check_common(&got, &t, &|e| e.count().min(65535) >= min, c.stranded, c.report_all)?;
            for (key, _, d) in &got.entries {
                let want = t[key].count().min(65535) as u16;
                if *d != want {
                    return Err(format!("k-mer {}: count {} but {} observations", to_ascii(key), d, t[key].count()));
                }
            }
            for (p, res) in &got.lookups {
                if let Some((_, d)) = res {
                    if *d != t[p].count().min(65535) as u16 {
                        return Err(format!("get({}) returns a different count than iteration", to_ascii(p)));
                    }
                }
            }
            passes = got.passes;
            cname = cn;
        }
        1 => {
            let labels: Vec<u32> = reads.iter().map(|r| r.label as u32).collect();
            let (got, cn) = run_container::<K, Vec<u32>, _>(
                &reads, &labels, c.container, CountFilterSet::new(min), c.stranded, c.report_all, slices, &probes, c.aux,
            );
            check_common(&got, &t, &|e| e.count() >= min, c.stranded, c.report_all)?;
            for (key, _, d) in &got.entries {
                let want: Vec<u32> = t[key].labels().into_iter().map(|x| x as u32).collect();
                if *d != want {
                    return Err(format!("k-mer {}: label set {:?}, expected {:?}", to_ascii(key), d, want));
                }
            }
            passes = got.passes;
            cname = cn;
        }
        _ => {
            // labels = read index, so the recorder exposes grouping order
            let labels: Vec<u32> = (0..reads.len() as u32).collect();
            let (got, cn) = run_container::<K, Vec<(u8, u32)>, _>(
                &reads, &labels, c.container, Recorder, c.stranded, c.report_all, slices, &probes, c.aux,
            );
            check_common(&got, &t, &|_| true, c.stranded, c.report_all)?;
            for (key, _, d) in &got.entries {
                let want: Vec<(u8, u32)> = t[key].obs.iter().map(|o| (o.exts, o.read as u32)).collect();
                let same = if !c.stranded && is_pal(key) {
                    // palindromes: each observation's extension byte is defined up to reverse complement
                    d.len() == want.len()
                        && d.iter().zip(want.iter()).all(|(a, b)| a.1 == b.1 && (a.0 == b.0 || a.0 == model::ext_rc(b.0)))
                } else {
                    *d == want
                };
                if !same {
                    return Err(format!(
                        "k-mer {}: the summarizer was handed observations (exts, read) {:?}, the reads contain {:?} in input order",
                        to_ascii(key),
                        d,
                        want
                    ));
                }
            }
            passes = got.passes;
            cname = cn;
        }
    }
    if passes == 0 || passes > 256 {
        return Err(format!("harness: pass counter reports {}", passes));
    }
    Ok(Outcome::new(max_count >= 2)
        .label(passes == 1, "passes=1")
        .label(passes >= 2 && passes <= 4, "passes=2..4")
        .label(passes >= 5 && passes <= 32, "passes=5..32")
        .label(passes >= 33 && passes <= 128, "passes=33..128")
        .label(passes > 128, "passes>128")
        .label(passes == 256, "passes=256")
        .label(c.stranded, "stranded")
        .label(c.report_all, "report_all_kmers")
        .label(c.summarizer == 0, "CountFilter")
        .label(c.summarizer == 1, "CountFilterSet")
        .label(c.summarizer == 2, "recorder")
        .label(min > max_count, "threshold_above_every_count")
        .label(min >= 65535, "threshold>=65535")
        .label(cname == "DnaStringSlice(rc)", "container_rc_slice")
        .label(cname == "Lmer6", "container_lmer")
        .label(t.keys().any(|s| !c.stranded && is_pal(s)), "has_palindrome")
        .label(reads.iter().any(|r| r.exts != 0), "boundary_exts"))
}

/// Count saturation: a k-mer observed more than 65 535 times.
#[derive(Debug, Clone, Serialize, Deserialize)]
pub struct SatCase {
    pub base: u8,
    pub delta: i8,
    pub other: Seq,
    pub stranded: bool,
    pub slices: u8,
}

fn check_sat<K: Kmer>(c: &SatCase) -> CheckResult {
    let k = K::k();
    let n_obs = (65535i64 + c.delta as i64) as usize;
    let reads = vec![
        Read {
            seq: vec![c.base & 3; n_obs + k - 1],
            exts: 0,
            label: 1,
        },
        Read {
            seq: c.other.clone(),
            exts: 0,
            label: 2,
        },
    ];
    let t = model::build_table(&reads, k, c.stranded);
    let labels: Vec<u32> = vec![1, 2];
    let (got, _) = run_container::<K, u16, _>(&reads, &labels, 0, CountFilter::new(1), c.stranded, true, c.slices as usize, &[], 0);
    check_common(&got, &t, &|_| true, c.stranded, true)?;
    let mut saturated = false;
    for (key, _, d) in &got.entries {
        let want = t[key].count().min(65535) as u16;
        if *d != want {
            return Err(format!("k-mer {}: count {} but {} observations (cap 65535)", to_ascii(key), d, t[key].count()));
        }
        if t[key].count() > 65535 {
            saturated = true;
        }
    }
    Ok(Outcome::new(true).label(saturated, "count_above_65535"))
}

fn build<K: Kmer + 'static>(name: &'static str, env: &Env) -> Vec<Box<dyn Job>> {
    let k = K::k();
    let small = k <= 8;
    let (q, t) = if small { (400, 15000) } else { (120, 4000) };
    let mut v = vec![PropJob::new(
        format!("filter/{}", name),
        q,
        t,
        move |e: &Env| case_strategy(k, e),
        |c: &Case| check::<K>(c),
    )
    .with_render(move |c: &Case| json!({"reads": c.rs.render(k), "stranded": c.stranded, "slices": c.slices}))
    .boxed()];
    if k == 4 || k == 5 || k == 16 || k == 31 || k == 32 || k == 48 {
        let _ = env;
        v.push(
            PropJob::new(
                format!("saturation/{}", name),
                6,
                40,
                move |_e: &Env| {
                    (0u8..4, -3i8..4, crate::gen::dna(3 * k + 8), any::<bool>(), 1u8..4)
                        .prop_map(|(base, delta, other, stranded, slices)| SatCase {
                            base,
                            delta,
                            other,
                            stranded,
                            slices,
                        })
                        .boxed()
                },
                |c: &SatCase| check_sat::<K>(c),
            )
            .boxed(),
        );
    }
    v
}

#[cfg(not(fuzzing))]
pub fn jobs(env: &Env) -> Vec<Box<dyn Job>> {
    let mut out: Vec<Box<dyn Job>> = Vec::new();
    crate::kmers_ge4!(build, out, env);
    out
}
