//! C14 — growable DNA string is a faithful sequence container.

use std::collections::hash_map::DefaultHasher;
use std::hash::{Hash, Hasher};

use debruijn::dna_string::{ndiffs, DnaString, PackedDnaStringSet};
use debruijn::{Mer, Vmer};
use proptest::prelude::*;
use serde::{Deserialize, Serialize};
use serde_json::json;

use crate::gen;
use crate::runner::{guarded, CheckResult, EnumJob, Env, Job, JobReport, Outcome, PropJob};
use crate::util::{rc, to_ascii, Seq};

pub const RULE: &str = "case = operation history (0..14 ops) over {new, with_capacity(n), blank(n), Vmer::new(n), from_bytes, from_dna_string(text), from_acgt_bytes(text), push, extend(iterator of 0..100 bases incl. exact multiples of 32), push_bytes(packed bytes, count), set_mut, clear, from_acgt_bytes on raw bytes, from_acgt_bytes_hashn} with lengths biased to 0 and multiples of 32, plus a second DnaString with nearby content and a PackedDnaStringSet fed with generated sequences; after EVERY op: len/is_empty/get/iter/IntoIterator/to_bytes/to_ascii_vec/Display/Debug/reverse/rc equal the Vec<u8> model, and ==, Hash, cmp against the string rebuilt from the model by from_bytes and by push agree with the model (lexicographic, proper prefix first); ndiffs/hamming_distance equal the naive count; every sequence added to the packed set is returned unchanged at its index. A fixed job covers strings and packed-set entries of 65 535 / 65 536 / 65 537 / 70 001 bases with views around the 16-bit boundary. Non-trivial = >= 3 ops of >= 2 kinds with a non-empty final string.";
pub const TECHNIQUE: &str = "seeded proptest over stateful operation histories against a Vec<u8> model; two-route Eq/Hash/Ord agreement";

#[derive(Debug, Clone, Serialize, Deserialize)]
pub enum Op {
    New,
    WithCapacity(u16),
    Blank(u16),
    VmerNew(u16),
    FromBytes(Seq),
    FromStr(Seq),
    FromAcgt(Seq),
    /// arbitrary ASCII/bytes through the lenient constructor: non-ACGT becomes A
    FromAcgtRaw(Vec<u8>),
    /// hashed-N constructor: (bytes, read name)
    FromHashn(Vec<u8>, Vec<u8>),
    Push(u8),
    Extend(Seq),
    PushBytes(Vec<u8>, u16),
    Set(u16, u8),
    Clear,
}

#[derive(Debug, Clone, Serialize, Deserialize)]
pub struct Case {
    pub ops: Vec<Op>,
    pub other: Seq,
    pub edit: (u16, u8),
    pub set: Vec<Seq>,
    pub set_slice: (u16, u16, u16),
}

fn len_strategy() -> BoxedStrategy<usize> {
    prop_oneof![
        3 => 0usize..100,
        3 => proptest::sample::select(vec![0usize, 1, 31, 32, 33, 63, 64, 65, 96, 128]),
    ]
    .boxed()
}

fn seq() -> BoxedStrategy<Seq> {
    len_strategy().prop_flat_map(|n| proptest::collection::vec(0u8..4, n)).boxed()
}

fn op() -> BoxedStrategy<Op> {
    let n16 = len_strategy().prop_map(|x| x as u16);
    prop_oneof![
        1 => Just(Op::New),
        1 => n16.clone().prop_map(Op::WithCapacity),
        2 => n16.clone().prop_map(Op::Blank),
        1 => n16.prop_map(Op::VmerNew),
        2 => seq().prop_map(Op::FromBytes),
        1 => seq().prop_map(Op::FromStr),
        1 => seq().prop_map(Op::FromAcgt),
        1 => (len_strategy().prop_flat_map(|n| proptest::collection::vec(proptest::sample::select(b"ACGTacgtNNNn-R".to_vec()), n)), proptest::collection::vec(any::<u8>(), 0..6)).prop_map(|(b, n)| Op::FromHashn(b, n)),
        2 => len_strategy().prop_flat_map(|n| proptest::collection::vec(prop_oneof![3 => proptest::sample::select(b"ACGTacgtNnSWDswd347#$-.".to_vec()), 1 => any::<u8>()], n)).prop_map(Op::FromAcgtRaw),
        6 => (0u8..4).prop_map(Op::Push),
        6 => seq().prop_map(Op::Extend),
        3 => (proptest::collection::vec(any::<u8>(), 0..20), any::<u16>()).prop_map(|(b, n)| Op::PushBytes(b, n)),
        4 => (any::<u16>(), 0u8..4).prop_map(|(p, b)| Op::Set(p, b)),
        1 => Just(Op::Clear),
    ]
    .boxed()
}

fn case_strategy(_env: &Env) -> BoxedStrategy<Case> {
    (
        proptest::collection::vec(op(), 0..14),
        seq(),
        (any::<u16>(), 0u8..4),
        proptest::collection::vec(gen::dna(80), 0..6),
        (any::<u16>(), any::<u16>(), any::<u16>()),
    )
        .prop_map(|(ops, other, edit, set, set_slice)| Case {
            ops,
            other,
            edit,
            set,
            set_slice,
        })
        .boxed()
}

fn hash_of<T: Hash>(t: &T) -> u64 {
    let mut h = DefaultHasher::new();
    t.hash(&mut h);
    h.finish()
}

fn via_push(m: &[u8]) -> DnaString {
    let mut d = DnaString::new();
    for b in m {
        d.push(*b);
    }
    d
}

pub fn same(what: &str, d: &DnaString, m: &[u8]) -> Result<(), String> {
    if d.len() != m.len() || Mer::len(d) != m.len() {
        return Err(format!("{}: len() = {} but the model has {} bases", what, d.len(), m.len()));
    }
    if d.is_empty() != m.is_empty() || Mer::is_empty(d) != m.is_empty() {
        return Err(format!("{}: is_empty wrong", what));
    }
    for (i, b) in m.iter().enumerate() {
        if d.get(i) != *b {
            return Err(format!(
                "{}: base {} is {} want {} (string {} model {})",
                what,
                i,
                d.get(i),
                b,
                to_ascii(&d.to_bytes()),
                to_ascii(m)
            ));
        }
    }
    let cap = m.len() + 8;
    let it: Seq = d.iter().take(cap).collect();
    let it2: Seq = d.into_iter().take(cap).collect();
    let it3: Seq = Mer::iter(d).take(cap).collect();
    if it != m || it2 != m || it3 != m || d.to_bytes() != m {
        return Err(format!("{}: iteration / to_bytes disagree with the model", what));
    }
    let asc = to_ascii(m);
    if d.to_ascii_vec() != asc.as_bytes() {
        return Err(format!("{}: to_ascii_vec wrong", what));
    }
    if format!("{}", d) != asc || !format!("{:?}", d).contains(&asc) {
        return Err(format!("{}: Display/Debug render {} / {:?}, want {}", what, d, d, asc));
    }
    let rev: Seq = m.iter().rev().cloned().collect();
    if d.reverse().to_bytes() != rev {
        return Err(format!("{}: reverse() wrong", what));
    }
    if d.rc().to_bytes() != rc(m) {
        return Err(format!("{}: rc() wrong", what));
    }
    // value identity must not depend on the route
    for (rname, r) in [("from_bytes", DnaString::from_bytes(m)), ("push", via_push(m))] {
        if *d != r || !(*d == r) {
            return Err(format!(
                "{}: spells {} but is not == to the string built from the same bases by {} (padding / spare storage?)",
                what, asc, rname
            ));
        }
        if d.cmp(&r) != std::cmp::Ordering::Equal {
            return Err(format!("{}: cmp with the same bases built by {} is not Equal", what, rname));
        }
        if hash_of(d) != hash_of(&r) {
            return Err(format!("{}: Hash differs from the same bases built by {}", what, rname));
        }
        if ndiffs(d, &r) != 0 || d.hamming_distance(&r) != 0 {
            return Err(format!("{}: ndiffs against the same bases built by {} is not 0", what, rname));
        }
    }
    Ok(())
}

fn decode_packed(bytes: &[u8], n: usize) -> Seq {
    (0..n).map(|i| (bytes[i / 4] >> (2 * (i % 4))) & 3).collect()
}

pub fn check(c: &Case) -> CheckResult {
    let mut d = DnaString::new();
    let mut m: Seq = Vec::new();
    same("new", &d, &m)?;
    let mut kinds = std::collections::HashSet::new();
    let mut ext_after_partial = false;
    let mut clear_reuse = false;
    let mut cleared = false;
    let mut blank_then_grow = false;
    let mut was_blank = false;
    for (i, op) in c.ops.iter().enumerate() {
        kinds.insert(std::mem::discriminant(op));
        match op {
            Op::New => {
                d = DnaString::new();
                m.clear();
                was_blank = false;
            }
            Op::WithCapacity(n) => {
                d = DnaString::with_capacity(*n as usize);
                m.clear();
                was_blank = false;
            }
            Op::Blank(n) => {
                d = DnaString::blank(*n as usize);
                m = vec![0; *n as usize];
                was_blank = true;
            }
            Op::VmerNew(n) => {
                d = <DnaString as Vmer>::new(*n as usize);
                m = vec![0; *n as usize];
                was_blank = true;
            }
            Op::FromBytes(s) => {
                d = DnaString::from_bytes(s);
                m = s.clone();
                was_blank = false;
            }
            Op::FromStr(s) => {
                let t: String = to_ascii(s).chars().enumerate().map(|(i, ch)| if i % 3 == 2 { ch.to_ascii_lowercase() } else { ch }).collect();
                d = DnaString::from_dna_string(&t);
                m = s.clone();
                was_blank = false;
            }
            Op::FromAcgt(s) => {
                d = DnaString::from_acgt_bytes(to_ascii(s).as_bytes());
                m = s.clone();
                was_blank = false;
            }
            Op::FromAcgtRaw(t) => {
                d = DnaString::from_acgt_bytes(t);
                m = t
                    .iter()
                    .map(|c| match c {
                        b'A' | b'a' => 0,
                        b'C' | b'c' => 1,
                        b'G' | b'g' => 2,
                        b'T' | b't' => 3,
                        _ => 0,
                    })
                    .collect();
                was_blank = false;
            }
            Op::FromHashn(t, name) => {
                d = DnaString::from_acgt_bytes_hashn(t, name);
                // the substituted base is a function of (read name, position): the same position in a read whose
                // other non-ACGT bytes are replaced by A must get the same base
                let is_acgt = |c: &u8| matches!(c, b'A' | b'C' | b'G' | b'T' | b'a' | b'c' | b'g' | b't');
                m = Vec::with_capacity(t.len());
                for (i, c) in t.iter().enumerate() {
                    let b = match c {
                        b'A' | b'a' => 0,
                        b'C' | b'c' => 1,
                        b'G' | b'g' => 2,
                        b'T' | b't' => 3,
                        _ => {
                            let mut single: Vec<u8> = t.iter().map(|x| if is_acgt(x) { *x } else { b'A' }).collect();
                            single[i] = *c;
                            let r = DnaString::from_acgt_bytes_hashn(&single, name);
                            r.get(i)
                        }
                    };
                    m.push(b);
                }
                was_blank = false;
            }
            Op::Push(b) => {
                d.push(*b);
                m.push(*b);
                if cleared {
                    clear_reuse = true;
                }
                if was_blank {
                    blank_then_grow = true;
                }
            }
            Op::Extend(s) => {
                if m.len() % 32 != 0 && !s.is_empty() {
                    ext_after_partial = true;
                }
                if cleared && !s.is_empty() {
                    clear_reuse = true;
                }
                if was_blank && !s.is_empty() {
                    blank_then_grow = true;
                }
                d.extend(s.iter().cloned());
                m.extend_from_slice(s);
            }
            Op::PushBytes(bytes, n) => {
                let n = if bytes.is_empty() { 0 } else { crate::util::idx(*n, bytes.len() * 4 + 1) };
                d.push_bytes(bytes, n);
                m.extend(decode_packed(bytes, n));
            }
            Op::Set(p, b) => {
                if !m.is_empty() {
                    let pos = crate::util::idx(*p, m.len());
                    d.set_mut(pos, *b);
                    m[pos] = *b;
                }
            }
            Op::Clear => {
                d.clear();
                m.clear();
                cleared = true;
                was_blank = false;
            }
        }
        same(&format!("after op {} ({:?})", i, op), &d, &m)?;
    }
    // ordering / equality against nearby content
    let mut others: Vec<Seq> = vec![c.other.clone()];
    if !m.is_empty() {
        let mut e = m.clone();
        let p = crate::util::idx(c.edit.0, e.len());
        e[p] = c.edit.1;
        others.push(e);
        others.push(m[..crate::util::idx(c.edit.0, m.len())].to_vec()); // proper prefix
        let mut longer = m.clone();
        longer.push(c.edit.1);
        others.push(longer);
    }
    for o in &others {
        let od = if o.len() % 2 == 0 { DnaString::from_bytes(o) } else { via_push(o) };
        if (d == od) != (m == *o) {
            return Err(format!("== of {} and {} is {}", to_ascii(&m), to_ascii(o), d == od));
        }
        if d.cmp(&od) != m.cmp(o) || d.partial_cmp(&od) != Some(m.cmp(o)) {
            return Err(format!(
                "cmp({}, {}) = {:?} but the base sequences compare {:?} (lexicographic, proper prefix first)",
                to_ascii(&m),
                to_ascii(o),
                d.cmp(&od),
                m.cmp(o)
            ));
        }
        if m == *o && hash_of(&d) != hash_of(&od) {
            return Err("equal base sequences hash differently".into());
        }
        if o.len() == m.len() {
            let want = m.iter().zip(o.iter()).filter(|(a, b)| a != b).count();
            if ndiffs(&d, &od) != want || d.hamming_distance(&od) != want || ndiffs(&od, &d) != want {
                return Err(format!("ndiffs({}, {}) = {} want {}", to_ascii(&m), to_ascii(o), ndiffs(&d, &od), want));
            }
        }
    }
    // packed set
    let mut set = PackedDnaStringSet::new();
    if !set.is_empty() || set.len() != 0 {
        return Err("new PackedDnaStringSet is not empty".into());
    }
    for (i, s) in c.set.iter().enumerate() {
        if i % 2 == 0 {
            set.add(s.iter());
        } else {
            set.add(&DnaString::from_bytes(s));
        }
        if set.len() != i + 1 || set.is_empty() {
            return Err("PackedDnaStringSet::len wrong".into());
        }
        for j in 0..=i {
            let g = set.get(j);
            // the owned copy of an entry is the same value as the sequence that was added
            if i == c.set.len() - 1 {
                same(&format!("PackedDnaStringSet entry {} to_owned()", j), &g.to_owned(), &c.set[j])?;
            }
            if g.bytes() != c.set[j] || g.len() != c.set[j].len() {
                return Err(format!(
                    "PackedDnaStringSet: sequence {} reads back as {} after adding sequence {}, want {}",
                    j,
                    to_ascii(&g.bytes()),
                    i,
                    to_ascii(&c.set[j])
                ));
            }
        }
    }
    if !c.set.is_empty() {
        let j = crate::util::idx(c.set_slice.0, c.set.len());
        let n = c.set[j].len();
        let a = crate::util::idx(c.set_slice.1, n + 1);
        let b = a + crate::util::idx(c.set_slice.2, n - a + 1);
        if set.slice(j, a, b).bytes() != c.set[j][a..b] {
            return Err(format!("PackedDnaStringSet::slice({}, {}, {}) wrong", j, a, b));
        }
    }
    Ok(Outcome::new(c.ops.len() >= 3 && kinds.len() >= 2 && !m.is_empty())
        .label(m.len() > 32, "crosses_32")
        .label(m.len() % 32 == 0 && !m.is_empty(), "len_multiple_of_32")
        .label(ext_after_partial, "extend_after_partial_block")
        .label(clear_reuse, "clear_then_reuse")
        .label(blank_then_grow, "blank_then_grow")
        .label(c.set.len() >= 2, "packed_set>=2"))
}

/// Strings and packed-set entries longer than 65 535 bases (16-bit boundaries of lengths and offsets).
fn long_check(seed: u64, len: usize) -> Result<(), String> {
    let mut st = seed;
    let mut r = 0u64;
    let m: Seq = (0..len)
        .map(|j| {
            if j % 32 == 0 {
                r = crate::util::splitmix(&mut st);
            }
            ((r >> (2 * (j % 32))) & 3) as u8
        })
        .collect();
    let mut d = DnaString::from_bytes(&m);
    same("long from_bytes", &d, &m)?;
    let mut mm = m.clone();
    d.push(2);
    mm.push(2);
    d.extend([1u8, 3, 0, 2, 2].iter().cloned());
    mm.extend_from_slice(&[1, 3, 0, 2, 2]);
    d.set_mut(len - 1, 3 - mm[len - 1]);
    mm[len - 1] = 3 - mm[len - 1];
    same("long push/extend/set", &d, &mm)?;
    // views around the 65 536 boundary
    for (a, b) in [(65530usize.min(len), len), (0, 65536.min(len)), (65535.min(len), (65535 + 40).min(mm.len())), (len.saturating_sub(70), len)] {
        if a <= b && b <= mm.len() {
            let v = d.slice(a, b);
            crate::props::c15::check_view("view of a long string", &v, &mm[a..b], false, seed)?;
            if b - a <= 300 {
                let vr = v.rc();
                crate::props::c15::check_view("rc view of a long string", &vr, &rc(&mm[a..b]), true, seed)?;
            }
        }
    }
    // packed set: a long entry followed by short ones (starts beyond 65 535, length beyond 65 535)
    let mut set = PackedDnaStringSet::new();
    set.add([0u8, 1, 2].iter());
    set.add(m.iter());
    set.add([3u8, 3, 1, 0].iter());
    if set.get(1).len() != len || set.get(1).bytes() != m {
        return Err(format!("PackedDnaStringSet: an entry of {} bases reads back with length {}", len, set.get(1).len()));
    }
    if set.get(2).bytes() != [3u8, 3, 1, 0] || set.get(0).bytes() != [0u8, 1, 2] {
        return Err("PackedDnaStringSet: entries around a long entry read back wrong".into());
    }
    if set.slice(1, len - 5, len).bytes() != m[len - 5..] {
        return Err("PackedDnaStringSet::slice at the end of a long entry wrong".into());
    }
    Ok(())
}

fn long_job() -> Box<dyn Job> {
    let lens = [65535usize, 65536, 65537, 70001];
    EnumJob {
        name: "long_strings".into(),
        run: Box::new(move |env: &Env, rep: &mut JobReport| {
            for len in lens {
                let seed = env.job_seed("long") ^ len as u64;
                match guarded(|| long_check(seed, len)) {
                    Ok(()) => rep.pass(&Outcome::new(true).label(true, "len>=65535"), len as u64, || json!({"len": len})),
                    Err(m) => rep.fail(m, json!({"seed": seed.to_string(), "len": len})),
                }
            }
        }),
        replay: Box::new(|case: &serde_json::Value| {
            let c = case.get("case").unwrap_or(case);
            let seed: u64 = c.get("seed").and_then(|v| v.as_str()).and_then(|s| s.parse().ok()).ok_or("no seed")?;
            let len = c.get("len").and_then(|v| v.as_u64()).ok_or("no len")? as usize;
            Ok(guarded(|| long_check(seed, len)).map(|_| Outcome::new(true)))
        }),
    }
    .boxed()
}

#[cfg(not(fuzzing))]
pub fn jobs(_env: &Env) -> Vec<Box<dyn Job>> {
    let mut v: Vec<Box<dyn Job>> = vec![long_job()];
    v.extend((0..16)
        .map(|i| {
            PropJob::new(format!("history/{}", i), 1500, 60000, |e: &Env| case_strategy(e), check)
                .with_render(|c: &Case| json!({"ops": c.ops.len(), "other": to_ascii(&c.other)}))
                .boxed()
        }));
    v
}
