//! C17 — fixed-size DNA strings (Lmer) behave as strings.

use std::collections::hash_map::DefaultHasher;
use std::hash::{Hash, Hasher};

use debruijn::vmer::{Array, Lmer};
use debruijn::{Mer, Vmer};
use proptest::prelude::*;
use serde::{Deserialize, Serialize};
use serde_json::{json, Value};

use crate::ktypes::{Kmer12, Kmer16, Kmer20, Kmer32, Kmer4, Kmer48, Kmer5, Kmer64, Kmer8};
use crate::props::c13::check_container;
use crate::runner::{guarded, CheckResult, EnumJob, Env, Job, JobReport, Outcome, PropJob};
use crate::util::{pack_top, rc, splitmix, to_ascii, Seq};

pub const RULE: &str = "capacities 1..6 words. Exhaustive sweep jobs: for every length 0..=max_len (all lengths for 1..3 words, boundary lengths for 4..6), every position and every run length 1..=min(32,len-pos): one packed write of pseudo-random bases (cleanly packed value) into pseudo-random content, checked base by base together with len(), ==, Hash and Ord against the Lmer built from the model by from_slice; plus set_mut at every position and rc. Proptest histories: generated content and a sequence of set_mut / set_slice_mut / rc operations applied to the Lmer and to a Vec<u8>, with k-mer extraction for several K types. Non-trivial = a packed write crosses a word boundary or touches the last word (the one holding the length byte).";
pub const TECHNIQUE: &str = "exhaustive (length, position, run) sweep + seeded proptest op histories against a Vec<u8> model";

fn hash_of<T: Hash>(t: &T) -> u64 {
    let mut h = DefaultHasher::new();
    t.hash(&mut h);
    h.finish()
}

fn same<A>(what: &str, l: &Lmer<A>, model: &[u8]) -> Result<(), String>
where
    A: Array<Item = u64> + Copy + Eq + Ord + Hash,
{
    if l.len() != model.len() {
        return Err(format!("{}: len() = {} but the string has {} bases", what, l.len(), model.len()));
    }
    if l.is_empty() != model.is_empty() {
        return Err(format!("{}: is_empty wrong", what));
    }
    for (i, b) in model.iter().enumerate() {
        if l.get(i) != *b {
            let got: Seq = (0..l.len()).map(|j| l.get(j)).collect();
            return Err(format!(
                "{}: base {} is {} want {} (got {} want {})",
                what,
                i,
                l.get(i),
                b,
                to_ascii(&got),
                to_ascii(model)
            ));
        }
    }
    let it: Seq = l.iter().take(model.len() + 8).collect();
    if it != model {
        return Err(format!("{}: iter() disagrees with get()", what));
    }
    let r = Lmer::<A>::from_slice(model);
    if *l != r || l.cmp(&r) != std::cmp::Ordering::Equal {
        return Err(format!("{}: spells {} but is not == to from_slice of the same bases", what, to_ascii(model)));
    }
    if hash_of(l) != hash_of(&r) {
        return Err(format!("{}: Hash differs from from_slice of the same bases", what));
    }
    if !format!("{:?}", l).contains(&to_ascii(model)) {
        return Err(format!("{}: Debug form {:?} != {}", what, l, to_ascii(model)));
    }
    Ok(())
}

fn content(len: usize, st: &mut u64) -> Seq {
    let mut v = Vec::with_capacity(len);
    let mut r = 0u64;
    for i in 0..len {
        if i % 32 == 0 {
            r = splitmix(st);
        }
        v.push(((r >> (2 * (i % 32))) & 3) as u8);
    }
    v
}

/// One (len, pos, n) packed write + all single-base writes at pos + rc.
fn sweep_one<A>(len: usize, pos: usize, n: usize, seed: u64) -> Result<(), String>
where
    A: Array<Item = u64> + Copy + Eq + Ord + Hash,
{
    let mut st = seed ^ ((len as u64) << 40) ^ ((pos as u64) << 20) ^ n as u64;
    let m = content(len, &mut st);
    let mut l = Lmer::<A>::from_slice(&m);
    same("from_slice", &l, &m)?;
    let newb = content(n, &mut st);
    l.set_slice_mut(pos, n, pack_top(&newb, 0));
    let mut w = m.clone();
    w[pos..pos + n].copy_from_slice(&newb);
    same(&format!("set_slice_mut(pos {}, n {})", pos, n), &l, &w)?;
    // complemented bases (every addressed base changes)
    let comp: Seq = w[pos..pos + n].iter().map(|b| 3 - *b).collect();
    l.set_slice_mut(pos, n, pack_top(&comp, 0));
    w[pos..pos + n].copy_from_slice(&comp);
    same(&format!("second set_slice_mut(pos {}, n {})", pos, n), &l, &w)?;
    Ok(())
}

fn sweep_len<A>(len: usize, seed: u64) -> Result<(u64, u64), String>
where
    A: Array<Item = u64> + Copy + Eq + Ord + Hash,
{
    let words = A::size();
    let mut st = seed ^ len as u64;
    let m = content(len, &mut st);
    // new(): right length, all A
    let blank = Lmer::<A>::new(len);
    same("new", &blank, &vec![0u8; len])?;
    let l0 = Lmer::<A>::from_slice(&m);
    // single-base writes at every position
    for pos in 0..len {
        for b in 0..4u8 {
            let mut l = l0;
            l.set_mut(pos, b);
            let mut w = m.clone();
            w[pos] = b;
            same(&format!("set_mut({}, {})", pos, b), &l, &w)?;
        }
    }
    // rc
    let r = l0.rc();
    same("rc", &r, &rc(&m))?;
    same("rc.rc", &r.rc(), &m)?;
    let mut evals = 0u64;
    let mut nontrivial = 0u64;
    for pos in 0..len {
        for n in 1..=(len - pos).min(32) {
            sweep_one::<A>(len, pos, n, seed)?;
            evals += 1;
            let crosses = pos % 32 + n > 32;
            let last_word = (pos + n - 1) / 32 == words - 1;
            if crosses || last_word {
                nontrivial += 1;
            }
        }
    }
    Ok((evals, nontrivial))
}

fn sweep_job<A>(words: usize, full: bool) -> Box<dyn Job>
where
    A: Array<Item = u64> + Copy + Eq + Ord + Hash + Send + Sync + 'static,
{
    let max_len = (words * 64 - 8) / 2;
    let lens: Vec<usize> = if full {
        (0..=max_len).collect()
    } else {
        let mut v: Vec<usize> = vec![0, 1, 2, 31, 32, 33, 63, 64, 65, 95, 96, 97, 127, 128, 129, 159, 160, 161];
        for d in 0..6 {
            v.push(max_len - d);
            v.push(32 * (words - 1) + d);
            v.push((32 * (words - 1)).saturating_sub(d));
        }
        v.retain(|x| *x <= max_len);
        v.sort();
        v.dedup();
        v
    };
    let lens2 = lens.clone();
    EnumJob {
        name: format!("sweep/Lmer{}", words),
        run: Box::new(move |env: &Env, rep: &mut JobReport| {
            let mut writes = 0u64;
            for len in &lens {
                let len = *len;
                match guarded(|| sweep_len::<A>(len, env.seed)) {
                    Ok((e, nt)) => {
                        writes += e;
                        rep.pass(&Outcome::new(nt > 0), len as u64, || json!({"words": words, "len": len, "packed_writes": e}));
                    }
                    Err(m) => rep.fail(m, json!({"words": words, "len": len, "seed": env.seed.to_string()})),
                }
            }
            rep.exhaustive = full;
            rep.extra.insert("lengths".into(), json!(lens.len()));
            rep.extra.insert("packed_writes_checked".into(), json!(writes));
        }),
        replay: Box::new(move |case: &Value| {
            let c = case.get("case").unwrap_or(case);
            let len = c.get("len").and_then(|v| v.as_u64()).ok_or("no len")? as usize;
            let seed: u64 = c.get("seed").and_then(|v| v.as_str()).and_then(|s| s.parse().ok()).unwrap_or(20260926);
            let _ = &lens2;
            Ok(guarded(|| sweep_len::<A>(len, seed)).map(|_| Outcome::new(true)))
        }),
    }
    .boxed()
}

#[derive(Debug, Clone, Serialize, Deserialize)]
pub enum Op {
    Set(u16, u8),
    SetSlice(u16, u16, Vec<u8>),
    Rc,
}

#[derive(Debug, Clone, Serialize, Deserialize)]
pub struct Case {
    pub seq: Seq,
    pub ops: Vec<Op>,
}

fn history<A>(c: &Case) -> CheckResult
where
    A: Array<Item = u64> + Copy + Eq + Ord + Hash,
{
    let words = A::size();
    let max_len = (words * 64 - 8) / 2;
    if Lmer::<A>::max_len() != max_len {
        return Err(format!("max_len() = {} but {} words hold {} bases next to the length byte", Lmer::<A>::max_len(), words, max_len));
    }
    let mut m: Seq = c.seq.iter().cloned().take(max_len).collect();
    let mut l = Lmer::<A>::from_slice(&m);
    same("from_slice", &l, &m)?;
    let mut crossing = false;
    let mut last = false;
    for (oi, op) in c.ops.iter().enumerate() {
        match op {
            Op::Set(p, b) => {
                if m.is_empty() {
                    continue;
                }
                let pos = crate::util::idx(*p, m.len());
                l.set_mut(pos, *b & 3);
                m[pos] = *b & 3;
            }
            Op::SetSlice(p, n, bases) => {
                if m.is_empty() {
                    continue;
                }
                let pos = crate::util::idx(*p, m.len());
                let n = 1 + crate::util::idx(*n, (m.len() - pos).min(32));
                l.set_slice_mut(pos, n, pack_top(&bases[..n], 0));
                m[pos..pos + n].copy_from_slice(&bases[..n]);
                if pos % 32 + n > 32 {
                    crossing = true;
                }
                if (pos + n - 1) / 32 == words - 1 {
                    last = true;
                }
            }
            Op::Rc => {
                l = l.rc();
                m = rc(&m);
            }
        }
        same(&format!("after op {} ({:?})", oi, op), &l, &m)?;
    }
    // extraction for a spread of k-mer widths
    check_container::<Kmer4, _>("Lmer", &l, &m, 0x5a)?;
    check_container::<Kmer5, _>("Lmer", &l, &m, 0)?;
    check_container::<Kmer8, _>("Lmer", &l, &m, 0)?;
    check_container::<Kmer12, _>("Lmer", &l, &m, 0)?;
    check_container::<Kmer16, _>("Lmer", &l, &m, 0)?;
    check_container::<Kmer20, _>("Lmer", &l, &m, 0)?;
    check_container::<Kmer32, _>("Lmer", &l, &m, 0xff)?;
    check_container::<Kmer48, _>("Lmer", &l, &m, 0)?;
    check_container::<Kmer64, _>("Lmer", &l, &m, 0)?;
    Ok(Outcome::new(crossing || last)
        .label(crossing, "write_crosses_word")
        .label(last, "write_in_last_word")
        .label(m.len() == max_len, "len==max_len")
        .label(c.ops.iter().any(|o| matches!(o, Op::Rc)), "has_rc"))
}

fn history_job<A>(words: usize) -> Box<dyn Job>
where
    A: Array<Item = u64> + Copy + Eq + Ord + Hash + Send + Sync + 'static,
{
    let max_len = (words * 64 - 8) / 2;
    PropJob::new(
        format!("history/Lmer{}", words),
        1500,
        50000,
        move |_e: &Env| {
            let lens = prop_oneof![
                3 => 0usize..=max_len,
                2 => Just(max_len),
                1 => (0usize..4).prop_map(move |d| max_len - d),
                2 => (0usize..3, 0usize..words).prop_map(move |(d, w)| (32 * w + d).min(max_len)),
            ];
            let op = prop_oneof![
                3 => (any::<u16>(), 0u8..4).prop_map(|(p, b)| Op::Set(p, b)),
                6 => (any::<u16>(), any::<u16>(), proptest::collection::vec(0u8..4, 32)).prop_map(|(p, n, b)| Op::SetSlice(p, n, b)),
                2 => Just(Op::Rc),
            ];
            (lens, proptest::collection::vec(op, 0..12))
                .prop_flat_map(|(n, ops)| (proptest::collection::vec(0u8..4, n), Just(ops)))
                .prop_map(|(seq, ops)| Case { seq, ops })
                .boxed()
        },
        |c: &Case| history::<A>(c),
    )
    .with_render(|c: &Case| json!({"seq": to_ascii(&c.seq), "ops": c.ops.len()}))
    .boxed()
}

/// entry point for the fuzz target: the same history check, Lmer width chosen at run time
pub fn check_history(words: usize, c: &Case) -> CheckResult {
    match words {
        1 => history::<[u64; 1]>(c),
        2 => history::<[u64; 2]>(c),
        3 => history::<[u64; 3]>(c),
        4 => history::<[u64; 4]>(c),
        5 => history::<[u64; 5]>(c),
        _ => history::<[u64; 6]>(c),
    }
}

#[cfg(not(fuzzing))]
pub fn jobs(_env: &Env) -> Vec<Box<dyn Job>> {
    vec![
        sweep_job::<[u64; 3]>(3, true),
        sweep_job::<[u64; 6]>(6, false),
        sweep_job::<[u64; 5]>(5, false),
        sweep_job::<[u64; 4]>(4, false),
        sweep_job::<[u64; 2]>(2, true),
        sweep_job::<[u64; 1]>(1, true),
        history_job::<[u64; 1]>(1),
        history_job::<[u64; 2]>(2),
        history_job::<[u64; 3]>(3),
        history_job::<[u64; 4]>(4),
        history_job::<[u64; 5]>(5),
        history_job::<[u64; 6]>(6),
    ]
}
