//! C16 — ASCII ingestion is total and path-independent.

use debruijn::dna_string::DnaString;
use debruijn::Mer;
use proptest::prelude::*;
use serde::{Deserialize, Serialize};
use serde_json::{json, Value};

use crate::runner::{guarded, CheckResult, EnumJob, Env, Job, JobReport, Outcome, PropJob};
use crate::util::Seq;

pub const RULE: &str = "exhaustive jobs: every (lane 0..31, byte value 0..255) pair placed in the first, second and third 32-byte block of an otherwise valid input, with tails of 0, 1, 5, 17 and 31 bytes, converted with the vector path available and with the scalar path forced through the verif_hooks switch (32 x 256 x 3 x 5 inputs per job, both paths). Generated: byte strings of length 0..300 from mixtures of raw bytes, acgtnN, ACGT and IUPAC/digit characters, lengths biased to 0, 31, 32, 33, 63, 64, 65, 96, 97: from_acgt_bytes == from_bytes(table(b)) in length, every base and ==, vector == scalar, from_dna_string agrees on ASCII text, to_ascii_vec/to_string/Display = upper-cased input with non-ACGT -> A, from_dna_only_string = the maximal ACGT runs (no empty run), from_acgt_bytes_hashn leaves ACGT untouched, only substitutes 0..3, is repeatable, and the base at a non-ACGT position does not change when any other byte (or that byte, to another non-ACGT value) changes. Non-trivial = input has >= 1 full 32-byte block and >= 1 non-ACGT or lower-case byte.";
pub const TECHNIQUE: &str = "exhaustive lane x byte enumeration on both ingestion paths (verif_hooks switch) + seeded proptest against a scalar table model; metamorphic purity check for hashed-N";

pub fn table(c: u8) -> u8 {
    match c {
        b'A' | b'a' => 0,
        b'C' | b'c' => 1,
        b'G' | b'g' => 2,
        b'T' | b't' => 3,
        _ => 0,
    }
}

pub fn is_acgt(c: u8) -> bool {
    matches!(c, b'A' | b'C' | b'G' | b'T' | b'a' | b'c' | b'g' | b't')
}

fn with_scalar<T>(force: bool, f: impl FnOnce() -> T) -> T {
    debruijn::verif_hooks::set_force_scalar(force);
    let r = f();
    debruijn::verif_hooks::set_force_scalar(false);
    r
}

/// The lenient constructors on one input, on both paths.
pub fn check_lenient(bytes: &[u8]) -> Result<(), String> {
    let want: Seq = bytes.iter().map(|c| table(*c)).collect();
    let reference = DnaString::from_bytes(&want);
    for force in [false, true] {
        let path = if force { "scalar path" } else { "default (vector when available) path" };
        let d = with_scalar(force, || DnaString::from_acgt_bytes(bytes));
        if d.len() != bytes.len() {
            return Err(format!("from_acgt_bytes ({}): length {} for {} input bytes", path, d.len(), bytes.len()));
        }
        for i in 0..bytes.len() {
            if d.get(i) != want[i] {
                return Err(format!(
                    "from_acgt_bytes ({}): byte {:#04x} at position {} (lane {} of block {}, input length {}) became base {}, expected {}",
                    path,
                    bytes[i],
                    i,
                    i % 32,
                    i / 32,
                    bytes.len(),
                    d.get(i),
                    want[i]
                ));
            }
        }
        if d != reference {
            return Err(format!(
                "from_acgt_bytes ({}): every base is right but the value is not == to from_bytes of the same bases (length/padding)",
                path
            ));
        }
        let upper: Vec<u8> = want.iter().map(|b| b"ACGT"[*b as usize]).collect();
        if d.to_ascii_vec() != upper || d.to_string().as_bytes() != &upper[..] {
            return Err(format!("rendering ({}) is not the upper-cased input with non-ACGT replaced by A", path));
        }
    }
    Ok(())
}

fn lane_job(block: usize) -> Box<dyn Job> {
    EnumJob {
        name: format!("exhaustive_lane_byte/block{}", block),
        run: Box::new(move |_e: &Env, rep: &mut JobReport| {
            let mut inputs = 0u64;
            for lane in 0..32usize {
                for byte in 0..=255u8 {
                    let mut bad = None;
                    for tail in [0usize, 1, 5, 17, 31] {
                        let len = 32 * (block + 1) + tail;
                        let mut v: Vec<u8> = (0..len).map(|i| b"ACGTacgt"[(i * 5 + lane + tail) % 8]).collect();
                        v[32 * block + lane] = byte;
                        inputs += 1;
                        if let Err(m) = guarded(|| check_lenient(&v)) {
                            bad = Some((m, tail));
                            break;
                        }
                    }
                    match bad {
                        None => rep.pass(
                            &Outcome::new(!matches!(byte, b'A' | b'C' | b'G' | b'T')),
                            (lane as u64) << 8 | byte as u64,
                            || json!({"block": block, "lane": lane, "byte": byte}),
                        ),
                        Some((m, tail)) => rep.fail(m, json!({"block": block, "lane": lane, "byte": byte, "tail": tail})),
                    }
                }
            }
            rep.exhaustive = true;
            rep.extra.insert("inputs_converted_on_each_path".into(), json!(inputs));
            rep.extra.insert(
                "avx2_available".into(),
                json!(std::is_x86_feature_detected!("avx2")),
            );
        }),
        replay: Box::new(move |case: &Value| {
            let c = case.get("case").unwrap_or(case);
            let lane = c.get("lane").and_then(|v| v.as_u64()).ok_or("no lane")? as usize;
            let byte = c.get("byte").and_then(|v| v.as_u64()).ok_or("no byte")? as u8;
            let blk = c.get("block").and_then(|v| v.as_u64()).unwrap_or(block as u64) as usize;
            Ok(guarded(|| {
                for tail in [0usize, 1, 5, 17, 31] {
                    let len = 32 * (blk + 1) + tail;
                    let mut v: Vec<u8> = (0..len).map(|i| b"ACGTacgt"[(i * 5 + lane + tail) % 8]).collect();
                    v[32 * blk + lane] = byte;
                    check_lenient(&v)?;
                }
                Ok(())
            })
            .map(|_| Outcome::new(true)))
        }),
    }
    .boxed()
}

#[derive(Debug, Clone, Serialize, Deserialize)]
pub struct Case {
    pub bytes: Vec<u8>,
    pub name: Vec<u8>,
    pub edits: Vec<(u16, u8)>,
}

fn bytes_strategy(maxlen: usize) -> BoxedStrategy<Vec<u8>> {
    let lens = prop_oneof![
        3 => 0usize..=maxlen,
        3 => proptest::sample::select(vec![0usize, 1, 31, 32, 33, 63, 64, 65, 95, 96, 97, 128, 129]),
    ];
    let byte = prop_oneof![
        6 => proptest::sample::select(b"ACGT".to_vec()),
        3 => proptest::sample::select(b"acgt".to_vec()),
        3 => proptest::sample::select(b"NnRYKMSWBDHVswd-.*347#$ \n".to_vec()),
        1 => 0u8..128,
        1 => any::<u8>(),
    ];
    lens.prop_flat_map(move |n| proptest::collection::vec(byte.clone(), n)).boxed()
}

fn case_strategy(env: &Env) -> BoxedStrategy<Case> {
    (
        bytes_strategy(env.pick(200, 400)),
        proptest::collection::vec(any::<u8>(), 0..12),
        proptest::collection::vec((any::<u16>(), any::<u8>()), 1..5),
    )
        .prop_map(|(bytes, name, edits)| Case { bytes, name, edits })
        .boxed()
}

fn runs(text: &[u8]) -> Vec<Seq> {
    let mut out = Vec::new();
    let mut cur: Seq = Vec::new();
    for c in text {
        if is_acgt(*c) {
            cur.push(table(*c));
        } else if !cur.is_empty() {
            out.push(std::mem::take(&mut cur));
        }
    }
    if !cur.is_empty() {
        out.push(cur);
    }
    out
}

pub fn check(c: &Case) -> CheckResult {
    let b = &c.bytes;
    check_lenient(b)?;
    // str-based constructors on ASCII text
    let ascii: Vec<u8> = b.iter().map(|x| x & 0x7f).collect();
    let text = String::from_utf8(ascii.clone()).map_err(|_| "harness: not ASCII".to_string())?;
    let from_str = DnaString::from_dna_string(&text);
    let from_bytes = DnaString::from_acgt_bytes(&ascii);
    if from_str != from_bytes || from_str.len() != ascii.len() {
        return Err("from_dna_string(text) disagrees with from_acgt_bytes(text bytes) on ASCII text".into());
    }
    check_lenient(&ascii)?;
    // strict constructor: exactly the maximal ACGT runs
    let got: Vec<Seq> = DnaString::from_dna_only_string(&text).iter().map(|d| d.to_bytes()).collect();
    let want = runs(&ascii);
    if got != want {
        return Err(format!(
            "from_dna_only_string returned {} runs {:?}, the maximal ACGT runs are {} {:?}",
            got.len(),
            got.iter().map(|s| crate::util::to_ascii(s)).collect::<Vec<_>>(),
            want.len(),
            want.iter().map(|s| crate::util::to_ascii(s)).collect::<Vec<_>>()
        ));
    }
    if got.iter().any(|r| r.is_empty()) {
        return Err("from_dna_only_string returned an empty run".into());
    }
    // hashed-N constructor
    let h1 = DnaString::from_acgt_bytes_hashn(b, &c.name);
    let h2 = DnaString::from_acgt_bytes_hashn(b, &c.name);
    if h1 != h2 || h1.len() != b.len() {
        return Err("from_acgt_bytes_hashn is not repeatable / has the wrong length".into());
    }
    for i in 0..b.len() {
        if is_acgt(b[i]) {
            if h1.get(i) != table(b[i]) {
                return Err(format!("from_acgt_bytes_hashn changed the ACGT base at position {}", i));
            }
        } else if h1.get(i) > 3 {
            return Err(format!("from_acgt_bytes_hashn substituted the invalid value {} at position {}", h1.get(i), i));
        }
    }
    let nonacgt: Vec<usize> = (0..b.len()).filter(|i| !is_acgt(b[*i])).collect();
    let mut purity_checked = false;
    if !b.is_empty() {
        for (frac, newbyte) in &c.edits {
            // change one byte; every OTHER non-ACGT position must keep its substituted base
            let p = crate::util::idx(*frac, b.len());
            let mut e = b.clone();
            e[p] = *newbyte;
            let he = DnaString::from_acgt_bytes_hashn(&e, &c.name);
            for &q in &nonacgt {
                if q != p && he.get(q) != h1.get(q) {
                    return Err(format!(
                        "from_acgt_bytes_hashn: the base substituted at position {} changed ({} -> {}) when byte {} was changed from {:#04x} to {:#04x}: not a function of (read name, position)",
                        q,
                        h1.get(q),
                        he.get(q),
                        p,
                        b[p],
                        newbyte
                    ));
                }
                if q != p {
                    purity_checked = true;
                }
            }
            // the edited byte itself: non-ACGT -> another non-ACGT value keeps the base
            if !is_acgt(b[p]) && !is_acgt(*newbyte) {
                if he.get(p) != h1.get(p) {
                    return Err(format!(
                        "from_acgt_bytes_hashn: position {} got a different base when its non-ACGT byte {:#04x} became {:#04x}",
                        p, b[p], newbyte
                    ));
                }
                purity_checked = true;
            }
        }
        // truncation: a prefix keeps the substituted bases of its positions
        let cut = crate::util::idx(c.edits[0].0, b.len() + 1);
        let hp = DnaString::from_acgt_bytes_hashn(&b[..cut], &c.name);
        for i in 0..cut {
            if hp.get(i) != h1.get(i) {
                return Err(format!("from_acgt_bytes_hashn: position {} differs between the read and its prefix of length {}", i, cut));
            }
        }
    }
    let full_block = b.len() >= 32;
    let odd = b.iter().any(|x| !matches!(x, b'A' | b'C' | b'G' | b'T'));
    Ok(Outcome::new(full_block && odd)
        .label(full_block, "has_full_block")
        .label(b.len() % 32 != 0, "has_tail")
        .label(b.len() >= 64, "blocks>=2")
        .label(nonacgt.len() >= 2, "non_acgt>=2")
        .label(purity_checked, "hashn_purity_checked")
        .label(b.iter().any(|x| *x >= 0x80), "has_high_bytes"))
}

#[cfg(not(fuzzing))]
pub fn jobs(_env: &Env) -> Vec<Box<dyn Job>> {
    let mut out: Vec<Box<dyn Job>> = vec![lane_job(0), lane_job(1), lane_job(2)];
    for i in 0..12 {
        out.push(PropJob::new(format!("bytes/{}", i), 800, 30000, |e: &Env| case_strategy(e), check).boxed());
    }
    out
}
