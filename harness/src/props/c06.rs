//! C06 — strand symmetry when unstranded, strand separation when stranded.

use std::collections::{BTreeMap, BTreeSet};

use debruijn::compression::compress_graph;
use debruijn::filter::{filter_kmers, CountFilter, CountFilterSet};
use debruijn::graph::BaseGraph;
use debruijn::{DnaBytes, Exts, Kmer};
use proptest::prelude::*;
use serde::{Deserialize, Serialize};
use serde_json::json;

use crate::gmodel::GModel;
use crate::ktypes::kseq;
use crate::model::{self, Read};
use crate::pipeline::{build_base, nodes_of, parts_with_data, to_seqs, Entry3, NodeV, PayKind, SumPay};
use crate::props::c03::check_edges;
use crate::props::gcase::{gcase, GCase};
use crate::runner::{CheckResult, Env, Job, Outcome, PropJob};
use crate::util::{is_pal, rc, to_ascii, Seq};

pub const RULE: &str = "case = read set R (with caller-supplied boundary extension bytes at table level), a generated subset mask of reads to reverse-complement giving R', threshold, pipeline variant in {direct from hash table, sorted slice, re-compressed one-k-mer-per-node graph, model-sharded + combine + compress_graph, the crate's MSP sharding with a generated permutation}; the flipped table is also computed under forced multi-pass counting and with the flipped reads handed over as rc() views of the stored reads. Unstranded: real table(R) = real table(R') (keys, counts, label sets, extension sets; palindromes up to E∪rc(E)), every key is the string minimum of the k-mer and its reverse complement, graph(R) and graph(R') have the same (k-mer set, payload) parts and the same (K+1)-mer adjacency set. Stranded: the table holds exactly the forward windows of the reads (a k-mer whose reverse complement does not occur forward is absent), the graph's adjacencies are exactly the forward (K+1)-mers between retained k-mers, no edge reports a flip. Non-trivial = mask neither empty nor full and R has a k-mer seen on both strands or a palindrome (unstranded); R has a k-mer whose reverse complement is not a forward window (stranded).";
pub const TECHNIQUE: &str = "seeded proptest, metamorphic relation (reverse-complement any subset of reads) + string-level stranded model";

#[derive(Debug, Clone, Serialize, Deserialize)]
pub struct Case {
    pub g: GCase,
    pub mask: u32,
    pub bexts: Vec<u8>,
    /// 0 direct hash, 1 sorted slice, 2 recompress from singles, 3 sharded+combine+compress_graph
    pub pipeline: u8,
}

fn case_strategy(k: usize, env: &Env) -> BoxedStrategy<Case> {
    (gcase(k, env, false), any::<u32>(), proptest::collection::vec(prop_oneof![Just(0u8), any::<u8>()], 4), 0u8..5)
        .prop_map(|(g, mask, bexts, pipeline)| Case { g, mask, bexts, pipeline })
        .boxed()
}

type TableRow = (u8, u16, Vec<u8>);

fn real_table<K: Kmer>(reads: &[Read], stranded: bool, slices: usize) -> Result<BTreeMap<Seq, TableRow>, String> {
    let seqs = to_seqs(reads);
    // the table must not depend on the number of bucket passes either: force `slices` planned slices
    let input_kmers: usize = reads.iter().map(|r| r.seq.len().saturating_sub(K::k() - 1)).sum();
    let kmer_mem = input_kmers * std::mem::size_of::<(K, u8)>();
    let unit = if slices <= 1 || kmer_mem == 0 { usize::MAX / 4 } else { (kmer_mem / (slices - 1)).max(1) };
    debruijn::verif_hooks::set_mem_unit(Some(unit));
    let r = real_table_inner::<K, _>(&seqs, stranded);
    debruijn::verif_hooks::set_mem_unit(None);
    r
}

/// The same table, but the reads are handed over as views into longer strings, and a reverse-complemented
/// read is represented as the `rc()` VIEW of the stored forward read (not as re-materialised bases).
fn real_table_views<K: Kmer>(orig: &[Read], mask: u32, stranded: bool, slices: usize) -> Result<BTreeMap<Seq, TableRow>, String> {
    use debruijn::dna_string::{DnaString, DnaStringSlice};
    use debruijn::Mer;
    let backing: Vec<(usize, DnaString)> = orig
        .iter()
        .enumerate()
        .map(|(i, r)| {
            let a = (i * 13 + 5) % 41;
            let mut v: Seq = (0..a).map(|j| ((j * 7 + i) % 4) as u8).collect();
            v.extend_from_slice(&r.seq);
            v.extend_from_slice(&[2, 0, 3, 1, 1, 2]);
            (a, DnaString::from_bytes(&v))
        })
        .collect();
    let seqs: Vec<(DnaStringSlice, Exts, u8)> = orig
        .iter()
        .enumerate()
        .map(|(i, r)| {
            let (a, d) = &backing[i];
            let v = d.slice(*a, *a + r.seq.len());
            if (mask >> (i % 32)) & 1 == 1 {
                (v.rc(), Exts::new(model::ext_rc(r.exts)), r.label)
            } else {
                (v, Exts::new(r.exts), r.label)
            }
        })
        .collect();
    let input_kmers: usize = orig.iter().map(|r| r.seq.len().saturating_sub(K::k() - 1)).sum();
    let kmer_mem = input_kmers * std::mem::size_of::<(K, u8)>();
    let unit = if slices <= 1 || kmer_mem == 0 { usize::MAX / 4 } else { (kmer_mem / (slices - 1)).max(1) };
    debruijn::verif_hooks::set_mem_unit(Some(unit));
    let r = real_table_inner::<K, _>(&seqs, stranded);
    debruijn::verif_hooks::set_mem_unit(None);
    r
}

fn real_table_inner<K: Kmer, V: debruijn::Vmer>(seqs: &[(V, Exts, u8)], stranded: bool) -> Result<BTreeMap<Seq, TableRow>, String> {
    let (a, _) = filter_kmers::<K, V, u8, u16, CountFilter>(seqs, &Box::new(CountFilter::new(1)), stranded, false, 1);
    let (b, _) =
        filter_kmers::<K, V, u8, Vec<u8>, CountFilterSet<u8>>(seqs, &Box::new(CountFilterSet::new(1)), stranded, false, 1);
    let mut out: BTreeMap<Seq, TableRow> = BTreeMap::new();
    for (k, e, c) in a.iter() {
        if out.insert(kseq(k), (e.val, *c, Vec::new())).is_some() {
            return Err("duplicate key in table".into());
        }
    }
    for (k, e, l) in b.iter() {
        match out.get_mut(&kseq(k)) {
            Some(row) => {
                if row.0 != e.val {
                    return Err("CountFilter and CountFilterSet disagree on extensions".into());
                }
                row.2 = l.clone();
            }
            None => return Err("CountFilter and CountFilterSet disagree on keys".into()),
        }
    }
    if a.len() != b.len() {
        return Err("CountFilter and CountFilterSet disagree on the number of keys".into());
    }
    Ok(out)
}

fn graph_nodes<K: Kmer + Send + Sync>(reads: &[Read], c: &Case, stranded: bool) -> Result<(Vec<NodeV<SumPay>>, Vec<(usize, u8, bool)>), String> {
    let k = K::k();
    let min = c.g.min_count();
    let g = match c.pipeline {
        0 => build_base::<K, SumPay>(reads, stranded, min, Entry3::Hash)?.0.finish(),
        1 => build_base::<K, SumPay>(reads, stranded, min, Entry3::SortedSlice)?.0.finish_serial(),
        2 => {
            let (b, seen) = build_base::<K, SumPay>(reads, stranded, min, Entry3::Hash)?;
            let nodes = crate::pipeline::nodes_of_base(&b);
            let singles = crate::props::c09::split_nodes(&nodes, &seen, k, stranded, true, c.g.aux);
            let base: BaseGraph<K, SumPay> = crate::props::c09::base_from_nodes(&singles, stranded);
            compress_graph(stranded, &SumPay::spec(), base.finish(), None)
        }
        4 => {
            // the crate's own minimizer sharding (arbitrary permutation in half of the cases); counts as payload
            let perm = if c.g.aux & 8 == 0 { Some(c.g.aux) } else { None };
            let g16 = crate::props::c04::msp_graph::<K, crate::ktypes::Kmer3>(reads, stranded, perm, min, (c.g.aux % 5) as u8);
            let mut base: BaseGraph<K, SumPay> = BaseGraph::new(stranded);
            for i in 0..g16.len() {
                let n = g16.get_node(i);
                base.add(
                    n.sequence().bytes().iter(),
                    n.exts(),
                    SumPay {
                        count: *n.data() as u64,
                        xh: 0,
                        n: 0,
                    },
                );
            }
            base.finish_serial()
        }
        _ => {
            let shards = model::shard_reads(reads, k, stranded, 2 + (c.g.aux % 3) as usize, c.g.aux);
            let mut graphs = Vec::new();
            for sh in &shards {
                graphs.push(build_base::<K, SumPay>(sh, stranded, 1, Entry3::Hash)?.0);
            }
            let combined: BaseGraph<K, SumPay> = BaseGraph::combine(graphs.into_iter());
            compress_graph(stranded, &SumPay::spec(), combined.finish(), None)
        }
    };
    // adjacency through the real accessors (also validates each reported edge against the node sequences)
    let mut g = g;
    g.fix_exts(None);
    let gm = GModel::of_graph(&g);
    let (edge_w, _) = check_edges(&g, &gm)?;
    let mut w = gm.internal_w();
    w.extend(edge_w);
    let mut flips = Vec::new();
    for u in 0..g.len() {
        for dir in [debruijn::Dir::Left, debruijn::Dir::Right] {
            for e in g.get_node(u).edges(dir) {
                flips.push((e.0, crate::gmodel::d2u(e.1), e.2));
            }
        }
    }
    // stash W as pseudo nodes is clumsy; return nodes and let the caller recompute W from them
    let _ = w;
    Ok((nodes_of(&g), flips))
}

fn w_of(nodes: &[NodeV<SumPay>], k: usize, stranded: bool) -> BTreeSet<Seq> {
    // all exts of these graphs resolve (fix_exts(None) was applied), so W_total = internal steps ∪ every extension
    let gm = GModel::new(nodes.to_vec(), k, stranded);
    let mut w = gm.internal_w();
    for u in 0..gm.nodes.len() {
        for dir in [model::LEFT, model::RIGHT] {
            for b in model::ext_bases(gm.nodes[u].exts, dir) {
                w.insert(crate::util::canon(&model::kp1(gm.term(u, dir), dir, b), stranded));
            }
        }
    }
    w
}

pub fn check<K: Kmer + Send + Sync>(c: &Case) -> CheckResult {
    let k = K::k();
    let stranded = c.g.stranded;
    let mut reads = c.g.reads(k);
    for (i, r) in reads.iter_mut().enumerate() {
        r.exts = c.bexts[i % c.bexts.len()];
    }
    let n = reads.len();
    let slices: usize = [1usize, 1, 2, 3, 7, 64, 300][(c.mask as usize >> 20) % 7];
    if !stranded {
        // R' : reverse-complement the masked reads (boundary extensions with them)
        let flipped: Vec<Read> = reads
            .iter()
            .enumerate()
            .map(|(i, r)| {
                if (c.mask >> (i % 32)) & 1 == 1 {
                    Read {
                        seq: rc(&r.seq),
                        exts: model::ext_rc(r.exts),
                        label: r.label,
                    }
                } else {
                    r.clone()
                }
            })
            .collect();
        let nflip = (0..n).filter(|i| (c.mask >> (i % 32)) & 1 == 1).count();
        let t1 = real_table::<K>(&reads, false, 1)?;
        let as_views = (c.mask >> 19) & 1 == 1;
        let t2 = if as_views {
            real_table_views::<K>(&reads, c.mask, false, slices)?
        } else {
            real_table::<K>(&flipped, false, slices)?
        };
        for key in t1.keys() {
            let r = rc(key);
            if r.as_slice() < key.as_slice() {
                return Err(format!(
                    "table key {} is not the minimum of the k-mer and its reverse complement {}",
                    to_ascii(key),
                    to_ascii(&r)
                ));
            }
        }
        if t1.len() != t2.len() {
            return Err(format!(
                "reverse-complementing reads {:#b} changed the number of table keys {} -> {}",
                c.mask,
                t1.len(),
                t2.len()
            ));
        }
        for (key, row) in &t1 {
            let row2 = t2
                .get(key)
                .ok_or_else(|| format!("key {} disappears when reads are reverse-complemented", to_ascii(key)))?;
            let ext_same = if is_pal(key) {
                model::ext_closure(row.0) == model::ext_closure(row2.0)
            } else {
                row.0 == row2.0
            };
            if !ext_same || row.1 != row2.1 || row.2 != row2.2 {
                return Err(format!(
                    "key {}: (exts,count,labels) = {:?} but {:?} after reverse-complementing reads {:#b}",
                    to_ascii(key),
                    row,
                    row2,
                    c.mask
                ));
            }
        }
        // graphs (boundary extensions must be empty for complete reads handed to compression)
        let plain: Vec<Read> = reads.iter().map(|r| Read { exts: 0, ..r.clone() }).collect();
        let plain_f: Vec<Read> = flipped.iter().map(|r| Read { exts: 0, ..r.clone() }).collect();
        let (n1, _) = graph_nodes::<K>(&plain, c, false)?;
        let (n2, _) = graph_nodes::<K>(&plain_f, c, false)?;
        let p1 = parts_with_data(&n1, k, false);
        let p2 = parts_with_data(&n2, k, false);
        if p1 != p2 {
            let d = p1.iter().find(|x| !p2.contains(x)).or_else(|| p2.iter().find(|x| !p1.contains(x)));
            return Err(format!(
                "graph partition/payloads change when reads {:#b} are reverse-complemented ({} vs {} nodes), e.g. part {:?}",
                c.mask,
                p1.len(),
                p2.len(),
                d.map(|x| (x.0.iter().map(|s| to_ascii(s)).collect::<Vec<_>>(), x.1.clone()))
            ));
        }
        let w1 = w_of(&n1, k, false);
        let w2 = w_of(&n2, k, false);
        if w1 != w2 {
            return Err(format!("graph adjacencies change when reads {:#b} are reverse-complemented", c.mask));
        }
        // non-triviality
        let mt = model::build_table(&reads, k, false);
        let both = mt.values().any(|e| e.obs.iter().any(|o| o.flipped) && e.obs.iter().any(|o| !o.flipped));
        let pal = mt.keys().any(|s| is_pal(s));
        let proper = nflip > 0 && nflip < n;
        Ok(Outcome::new(proper && (both || pal))
            .label(proper, "mask_proper")
            .label(both, "kmer_on_both_strands")
            .label(pal, "has_palindrome")
            .label(k % 2 == 1, "odd_K")
            .label(c.pipeline == 0, "pipeline_direct")
            .label(c.pipeline == 1, "pipeline_sorted_slice")
            .label(c.pipeline == 2, "pipeline_recompressed")
            .label(c.pipeline == 3, "pipeline_sharded")
            .label(c.pipeline == 4, "pipeline_msp_sharded")
            .label(slices > 1, "multi_pass_table")
            .label(as_views, "flipped_reads_as_rc_views"))
    } else {
        let t = real_table::<K>(&reads, true, slices)?;
        let mt = model::build_table(&reads, k, true);
        let fwd: BTreeSet<&Seq> = mt.keys().collect();
        let got: BTreeSet<&Seq> = t.keys().collect();
        if fwd != got {
            let extra = got.difference(&fwd).next().map(|s| to_ascii(s));
            let missing = fwd.difference(&got).next().map(|s| to_ascii(s));
            return Err(format!(
                "stranded table keys are not exactly the forward windows of the reads: extra {:?}, missing {:?}",
                extra, missing
            ));
        }
        let mut separated = false;
        for key in &fwd {
            let r = rc(key);
            if !fwd.contains(&r) {
                separated = true;
                if t.contains_key(&r) {
                    return Err(format!("stranded table contains {} whose only occurrence is as a reverse complement", to_ascii(&r)));
                }
            }
            let row = &t[*key];
            if row.0 != mt[*key].exts || row.1 as usize != mt[*key].count().min(65535) {
                return Err(format!("stranded table row for {} mixes strands: {:?}", to_ascii(key), row));
            }
        }
        let plain: Vec<Read> = reads.iter().map(|r| Read { exts: 0, ..r.clone() }).collect();
        let (nodes, flips) = graph_nodes::<K>(&plain, c, true)?;
        if let Some(f) = flips.iter().find(|f| f.2) {
            return Err(format!("stranded graph reports a strand-flipping edge {:?}", f));
        }
        let w = w_of(&nodes, k, true);
        let mtp = model::build_table(&plain, k, true);
        let min = if c.pipeline == 3 { 1 } else { c.g.min_count() };
        let _ = slices;
        let retained = |s: &Seq| mtp.get(s).map(|e| e.count() >= min).unwrap_or(false);
        let want = model::read_kp1s(&plain, k, true, &retained);
        if w != want {
            let extra = w.difference(&want).next().map(|s| to_ascii(s));
            let missing = want.difference(&w).next().map(|s| to_ascii(s));
            return Err(format!(
                "stranded graph adjacencies are not exactly the forward (K+1)-mers of the reads: extra {:?}, missing {:?}",
                extra, missing
            ));
        }
        // every node k-mer is a forward window
        for nd in &nodes {
            for i in 0..=nd.seq.len() - k {
                if !retained(&nd.seq[i..i + k].to_vec()) {
                    return Err(format!("stranded graph contains k-mer {} that is not a retained forward window", to_ascii(&nd.seq[i..i + k])));
                }
            }
        }
        Ok(Outcome::new(separated)
            .label(separated, "rc_absent_kmer")
            .label(true, "stranded")
            .label(mt.keys().any(|s| is_pal(s)), "has_palindrome")
            .label(k % 2 == 1, "odd_K"))
    }
}

fn build<K: Kmer + Send + Sync + 'static>(name: &'static str, _env: &Env) -> Vec<Box<dyn Job>> {
    let k = K::k();
    let small = k <= 8;
    let (q, t) = if small { (400, 15000) } else { (120, 4000) };
    vec![PropJob::new(
        format!("strand/{}", name),
        q,
        t,
        move |e: &Env| case_strategy(k, e),
        |c: &Case| check::<K>(c),
    )
    .with_render(move |c: &Case| json!({"reads": c.g.rs.render(k), "stranded": c.g.stranded, "mask": c.mask}))
    .boxed()]
}

#[cfg(not(fuzzing))]
pub fn jobs(env: &Env) -> Vec<Box<dyn Job>> {
    let mut out: Vec<Box<dyn Job>> = Vec::new();
    crate::kmers_ge4!(build, out, env);
    out
}

#[allow(dead_code)]
fn _unused(_: Exts) {}
