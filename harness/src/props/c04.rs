//! C04 — sharded assembly equals unsharded assembly.

use std::collections::BTreeMap;
use std::fmt::Debug;

use boomphf::hashmap::BoomHashMap2;
use debruijn::compression::{compress_graph, compress_kmers_with_hash, CompressionSpec, ScmapCompress, SimpleCompress};
use debruijn::dna_string::DnaString;
use debruijn::filter::{filter_kmers, CountFilter, CountFilterSet, KmerSummarizer};
use debruijn::graph::{BaseGraph, DebruijnGraph};
use debruijn::msp::msp_sequence;
use debruijn::vmer::Lmer;
use debruijn::{DnaBytes, Exts, Kmer, Vmer};
use proptest::prelude::*;
use serde::{Deserialize, Serialize};
use serde_json::json;

use crate::model;
use crate::pipeline::{describe_partition_diff, nodes_of, parts_of, parts_with_data, ptable, ColPay, NodeV, PTable, PayKind, U16Pay};
use crate::props::c08::{container_name, perm_table};
use crate::props::gcase::{gcase, GCase};
use crate::runner::{CheckResult, Env, Job, Outcome, PropJob};
use crate::util::{canon, to_ascii, Seq};

pub const RULE: &str = "case = read set x (K type, minimizer type P<K) x default/generated permutation x stranded (MSP rc mode = !stranded) x threshold x payload (u16 counts with saturating sum / label sets with equality join) x piece container; pipeline exactly as the crate's sharded reassembly: msp_sequence -> group by bucket -> per-shard filter_kmers -> compress_kmers_with_hash -> BaseGraph::combine -> finish -> compress_graph; compared with the one-pass pipeline followed by compress_graph and with the string-level model (partition, payload per part, (K+1)-mer adjacency set). Non-trivial = >= 2 shards produced and >= 1 node of the final graph spans k-mers from different shards.";
pub const TECHNIQUE: &str = "seeded proptest, differential (sharded vs direct) anchored to a string-level model, cut- and orientation-invariant comparison";

#[derive(Debug, Clone, Serialize, Deserialize)]
pub struct Case {
    pub g: GCase,
    pub perm_seed: Option<u64>,
    pub container: u8,
    pub colour: bool,
}

fn case_strategy(k: usize, env: &Env) -> BoxedStrategy<Case> {
    (gcase(k, env, false), proptest::option::weighted(0.6, any::<u64>()), 0u8..5, any::<bool>())
        .prop_map(|(g, perm_seed, container, colour)| Case {
            g,
            perm_seed,
            container,
            colour,
        })
        .boxed()
}

struct Sharded<K: Kmer, D> {
    graph: DebruijnGraph<K, D>,
    nshards: usize,
    shard_of: BTreeMap<Seq, u32>,
}

fn sharded<K, P, V, D, S, CS>(
    reads: &[model::Read],
    stranded: bool,
    perm: Option<&[usize]>,
    summ: &dyn Fn() -> S,
    spec: &CS,
) -> Sharded<K, D>
where
    K: Kmer + Send + Sync,
    P: Kmer,
    V: Vmer + Clone,
    D: Debug + Clone + PartialEq,
    S: KmerSummarizer<u8, D>,
    CS: CompressionSpec<D>,
{
    let k = K::k();
    let mut shards: BTreeMap<u32, Vec<(V, Exts, u8)>> = BTreeMap::new();
    let mut shard_of: BTreeMap<Seq, u32> = BTreeMap::new();
    for r in reads {
        for (bucket, exts, piece) in msp_sequence::<P, V>(k, &r.seq, perm, !stranded) {
            for i in 0..=piece.len() - k {
                let w: Seq = (i..i + k).map(|j| piece.get(j)).collect();
                shard_of.insert(canon(&w, stranded), bucket);
            }
            shards.entry(bucket).or_default().push((piece, exts, r.label));
        }
    }
    let mut graphs: Vec<BaseGraph<K, D>> = Vec::new();
    for seqs in shards.values() {
        let (valid, _): (BoomHashMap2<K, Exts, D>, _) = filter_kmers(seqs, &Box::new(summ()), stranded, false, 1);
        graphs.push(compress_kmers_with_hash(stranded, spec, &valid));
    }
    let nshards = graphs.len();
    let combined = if graphs.is_empty() {
        BaseGraph::new(stranded)
    } else {
        BaseGraph::combine(graphs.into_iter())
    };
    let g = compress_graph(stranded, spec, combined.finish(), None);
    Sharded {
        graph: g,
        nshards,
        shard_of,
    }
}

fn direct<K, D, S, CS>(reads: &[model::Read], stranded: bool, summ: S, spec: &CS) -> DebruijnGraph<K, D>
where
    K: Kmer + Send + Sync,
    D: Debug + Clone + PartialEq,
    S: KmerSummarizer<u8, D>,
    CS: CompressionSpec<D>,
{
    let seqs = crate::pipeline::to_seqs(reads);
    let (valid, _): (BoomHashMap2<K, Exts, D>, _) = filter_kmers(&seqs, &Box::new(summ), stranded, false, 1);
    let base = compress_kmers_with_hash(stranded, spec, &valid);
    compress_graph(stranded, spec, base.finish_serial(), None)
}

fn sharded_dispatch<K, P, D, S, CS>(
    cname: &str,
    reads: &[model::Read],
    stranded: bool,
    perm: Option<&[usize]>,
    summ: &dyn Fn() -> S,
    spec: &CS,
) -> Sharded<K, D>
where
    K: Kmer + Send + Sync,
    P: Kmer,
    D: Debug + Clone + PartialEq,
    S: KmerSummarizer<u8, D>,
    CS: CompressionSpec<D>,
{
    match cname {
        "Lmer1" => sharded::<K, P, Lmer<[u64; 1]>, D, S, CS>(reads, stranded, perm, summ, spec),
        "Lmer2" => sharded::<K, P, Lmer<[u64; 2]>, D, S, CS>(reads, stranded, perm, summ, spec),
        "Lmer3" => sharded::<K, P, Lmer<[u64; 3]>, D, S, CS>(reads, stranded, perm, summ, spec),
        "DnaString" => sharded::<K, P, DnaString, D, S, CS>(reads, stranded, perm, summ, spec),
        _ => sharded::<K, P, DnaBytes, D, S, CS>(reads, stranded, perm, summ, spec),
    }
}


/// The crate's sharded pipeline (MSP with p-mer type P, optional generated permutation) as one call:
/// used by C06 as the "sharded" pipeline variant.
pub fn msp_graph<K: Kmer + Send + Sync, P: Kmer>(
    reads: &[model::Read],
    stranded: bool,
    perm_seed: Option<u64>,
    min: usize,
    container: u8,
) -> DebruijnGraph<K, u16> {
    let table = perm_table(P::k(), perm_seed);
    let cname = container_name(container, K::k(), P::k());
    let f: fn(u16, &u16) -> u16 = |a, b| a.saturating_add(*b);
    let spec = SimpleCompress::new(f);
    sharded_dispatch::<K, P, u16, CountFilter, _>(cname, reads, stranded, table.as_deref(), &|| CountFilter::new(min), &spec).graph
}

fn compare<K: Kmer + Send + Sync, D: Debug + Clone + PartialEq, PK: PayKind>(
    sh: &Sharded<K, D>,
    dr: &DebruijnGraph<K, D>,
    as_p: &dyn Fn(&D) -> PK,
    pt: &PTable<PK>,
    stranded: bool,
) -> Result<(bool, usize), String> {
    let k = K::k();
    let conv = |g: &DebruijnGraph<K, D>| -> Vec<NodeV<PK>> {
        nodes_of(g)
            .into_iter()
            .map(|n| NodeV {
                seq: n.seq,
                exts: n.exts,
                data: as_p(&n.data),
            })
            .collect()
    };
    let ns = conv(&sh.graph);
    let nd = conv(dr);
    let ps = parts_with_data(&ns, k, stranded);
    let pd = parts_with_data(&nd, k, stranded);
    if ps != pd {
        let a = parts_of(&ns, k, stranded);
        let b = parts_of(&nd, k, stranded);
        if a != b {
            return Err(format!(
                "sharded and one-pass assemblies partition the k-mers differently: {}",
                describe_partition_diff(&a, &b)
            ));
        }
        let d = ps.iter().zip(pd.iter()).find(|(x, y)| x != y);
        return Err(format!(
            "sharded and one-pass assemblies have different payload totals on a node: {:?}",
            d.map(|(x, y)| (x.0.iter().map(|s| to_ascii(s)).collect::<Vec<_>>(), x.1.clone(), y.1.clone()))
        ));
    }
    // both against the model
    let pruned = model::prune_exts(pt, stranded);
    crate::pipeline::check_lossless(&ns, &pruned, k, stranded).map_err(|e| format!("sharded: {}", e))?;
    crate::pipeline::check_lossless(&nd, &pruned, k, stranded).map_err(|e| format!("one-pass: {}", e))?;
    let info = model::expected_partition(&pruned, stranded, &|a: &PK, b: &PK| PK::join(a, b))?;
    let got = parts_of(&ns, k, stranded);
    if got != info.parts {
        return Err(format!(
            "both assemblies agree with each other but not with the reference partition: {}",
            describe_partition_diff(&got, &info.parts)
        ));
    }
    // adjacencies: every extension of the final graphs resolves; compare (K+1)-mer sets
    let w = |nodes: &[NodeV<PK>]| {
        let gm = crate::gmodel::GModel::new(nodes.to_vec(), k, stranded);
        let mut w = gm.internal_w();
        for u in 0..gm.nodes.len() {
            for dir in [model::LEFT, model::RIGHT] {
                for b in model::ext_bases(gm.nodes[u].exts, dir) {
                    w.insert(canon(&model::kp1(gm.term(u, dir), dir, b), stranded));
                }
            }
        }
        w
    };
    let (ws, wd) = (w(&ns), w(&nd));
    let want = crate::gmodel::table_w(&pruned, stranded);
    if ws != wd || ws != want {
        let lost: Vec<String> = want.difference(&ws).take(3).map(|s| to_ascii(s)).collect();
        let inv: Vec<String> = ws.difference(&want).take(3).map(|s| to_ascii(s)).collect();
        return Err(format!(
            "adjacency sets differ: sharded vs reference lost {:?} invented {:?}; one-pass == reference: {}",
            lost,
            inv,
            wd == want
        ));
    }
    {
        let gm = crate::gmodel::GModel::new(ns.clone(), k, stranded);
        for (i, n) in ns.iter().enumerate() {
            for dir in [debruijn::Dir::Left, debruijn::Dir::Right] {
                let e = sh.graph.get_node(i).edges(dir).len();
                if e != model::ext_count(n.exts, crate::gmodel::d2u(dir)) as usize {
                    return Err(format!("sharded graph: node {} has an extension that does not resolve", i));
                }
            }
        }
        let _ = gm;
    }
    // does some final node span k-mers of different shards?
    let spans = ns.iter().any(|n| {
        let mut ids = (0..=n.seq.len() - k).filter_map(|i| sh.shard_of.get(&canon(&n.seq[i..i + k], stranded)));
        match ids.next() {
            None => false,
            Some(first) => ids.any(|x| x != first),
        }
    });
    Ok((spans, ns.len()))
}

fn check<K: Kmer + Send + Sync, P: Kmer>(c: &Case) -> CheckResult {
    let k = K::k();
    let p = P::k();
    let stranded = c.g.stranded;
    let reads = c.g.reads(k);
    let min = c.g.min_count();
    let table = perm_table(p, c.perm_seed);
    let cname = container_name(c.container, k, p);
    let mt = model::build_table(&reads, k, stranded);
    let (spans, nshards, nnodes) = if c.colour {
        let spec: ScmapCompress<Vec<u8>> = ScmapCompress::new();
        let sh = sharded_dispatch::<K, P, Vec<u8>, CountFilterSet<u8>, _>(
            cname, &reads, stranded, table.as_deref(), &|| CountFilterSet::new(min), &spec,
        );
        let dr = direct::<K, Vec<u8>, _, _>(&reads, stranded, CountFilterSet::new(min), &spec);
        let pt: PTable<ColPay> = ptable(&mt, min);
        let (spans, n) = compare::<K, Vec<u8>, ColPay>(&sh, &dr, &|d| ColPay(d.clone()), &pt, stranded)?;
        (spans, sh.nshards, n)
    } else {
        let f: fn(u16, &u16) -> u16 = |a, b| a.saturating_add(*b);
        let spec = SimpleCompress::new(f);
        let sh = sharded_dispatch::<K, P, u16, CountFilter, _>(cname, &reads, stranded, table.as_deref(), &|| CountFilter::new(min), &spec);
        let dr = direct::<K, u16, _, _>(&reads, stranded, CountFilter::new(min), &spec);
        let pt: PTable<U16Pay> = ptable(&mt, min);
        let (spans, n) = compare::<K, u16, U16Pay>(&sh, &dr, &|d| U16Pay(*d), &pt, stranded)?;
        (spans, sh.nshards, n)
    };
    Ok(Outcome::new(nshards >= 2 && spans)
        .label(nshards >= 2, "shards>=2")
        .label(nshards >= 5, "shards>=5")
        .label(spans, "node_spans_shards")
        .label(nnodes >= 2, "nodes>=2")
        .label(stranded, "stranded")
        .label(c.colour, "colour_payload")
        .label(c.perm_seed.is_some(), "arbitrary_permutation")
        .label(cname.starts_with("Lmer"), "container_lmer")
        .label(c.g.min_count >= 2 && c.g.min_count != 255, "threshold>=2"))
}

fn build<K: Kmer + Send + Sync + 'static, P: Kmer + 'static>(name: &'static str) -> Box<dyn Job> {
    let k = K::k();
    let small = k <= 8;
    let (q, t) = if small { (400, 12000) } else { (120, 3000) };
    PropJob::new(
        format!("sharded/{}", name),
        q,
        t,
        move |e: &Env| case_strategy(k, e),
        |c: &Case| check::<K, P>(c),
    )
    .with_render(move |c: &Case| json!({"reads": c.g.rs.render(k), "stranded": c.g.stranded, "p": P::k()}))
    .boxed()
}

macro_rules! pairs {
    ($out:expr; $(($K:ident, $P:ident)),* $(,)?) => {
        $( $out.push(build::<crate::ktypes::$K, crate::ktypes::$P>(concat!(stringify!($K), "-", stringify!($P)))); )*
    };
}

#[cfg(not(fuzzing))]
pub fn jobs(_env: &Env) -> Vec<Box<dyn Job>> {
    let mut out: Vec<Box<dyn Job>> = Vec::new();
    pairs!(out;
        (Kmer4, Kmer2), (Kmer4, Kmer3), (Kmer4v, Kmer3), (Kmer5, Kmer2), (Kmer5, Kmer3), (Kmer5, Kmer4),
        (Kmer6, Kmer3), (Kmer6, Kmer5), (Kmer8, Kmer3), (Kmer8, Kmer4), (Kmer8, Kmer6),
        (Kmer10, Kmer4), (Kmer12, Kmer5), (Kmer14, Kmer6), (Kmer15, Kmer5), (Kmer16, Kmer6), (Kmer20, Kmer6),
        (Kmer24, Kmer8), (Kmer30, Kmer6), (Kmer31, Kmer6), (Kmer32, Kmer8), (Kmer40, Kmer5), (Kmer48, Kmer8),
        (Kmer64, Kmer6), (Kmer32, Kmer4v)
    );
    out
}
