//! C13 — k-mer extraction agrees across all containers.

use debruijn::dna_string::DnaString;
use debruijn::vmer::Lmer;
use debruijn::{Dir, DnaBytes, DnaSlice, Exts, Kmer, Mer, Vmer};
use proptest::prelude::*;
use serde::{Deserialize, Serialize};
use serde_json::json;

use crate::gen;
use crate::props::c10::expect;
use crate::runner::{CheckResult, Env, Job, Outcome, PropJob};
use crate::util::{rc, to_ascii, Seq};

pub const RULE: &str = "case = (sequence of length 0..~3K+200 biased to block boundaries and to lengths K-1,K,K+1, left/right flank lengths 0..70 for slices, boundary extension byte); containers: DnaString, forward DnaStringSlice at an offset, reverse-complemented DnaStringSlice, nested slice, Lmer of 1..6 words (when the length fits), DnaBytes, DnaSlice; for every position: get_kmer, iter_kmers item, first/last/term/both_term_kmer, kmers_from_bytes/ascii against the k-mer of bases i..i+K of the plain vector; iterator lengths = max(0,n-K+1); iter_kmer_exts flanks with the boundary nibbles only at the two ends. Non-trivial = n > K and (the sequence crosses a 32-base block or the k-mer storage is not 64 bits wide).";
pub const TECHNIQUE: &str = "seeded proptest over containers x k-mer types x lengths x offsets against a substring model";

#[derive(Debug, Clone, Serialize, Deserialize)]
pub struct Case {
    pub seq: Seq,
    pub lflank: u8,
    pub rflank: u8,
    pub bexts: u8,
    pub sub: (u16, u16),
}

pub fn seq_strategy(k: usize, max_extra: usize) -> BoxedStrategy<Seq> {
    let lens = prop_oneof![
        2 => Just(k.saturating_sub(1)),
        2 => Just(k),
        2 => Just(k + 1),
        1 => Just(0usize),
        4 => gen::boundary_len(k + max_extra),
        3 => (0usize..=max_extra).prop_map(move |x| k + x),
    ];
    (lens, gen::alphabet())
        .prop_flat_map(|(n, (a, p))| gen::bases(n, a, p))
        .boxed()
}

fn case_strategy(k: usize, env: &Env) -> BoxedStrategy<Case> {
    (seq_strategy(k, env.pick(150, 400)), 0u8..70, 0u8..70, any::<u8>(), (any::<u16>(), any::<u16>()))
        .prop_map(|(seq, lflank, rflank, bexts, sub)| Case {
            seq,
            lflank,
            rflank,
            bexts,
            sub,
        })
        .boxed()
}

/// Everything C13 asks of one container holding `model`.
pub fn check_container<K: Kmer, V: Vmer>(name: &str, v: &V, model: &[u8], bexts: u8) -> Result<(), String> {
    let k = K::k();
    let n = model.len();
    let ctx = |e: String| format!("{} (container {}, n = {})", e, name, n);
    if v.len() != n {
        return Err(ctx(format!("len() = {}", v.len())));
    }
    if v.is_empty() != (n == 0) {
        return Err(ctx("is_empty wrong".into()));
    }
    for i in 0..n {
        if v.get(i) != model[i] {
            return Err(ctx(format!("get({}) = {} want {}", i, v.get(i), model[i])));
        }
    }
    let nk = if n >= k { n - k + 1 } else { 0 };
    for i in 0..nk {
        expect(&format!("get_kmer({})", i), v.get_kmer::<K>(i), &model[i..i + k]).map_err(ctx)?;
    }
    let it: Vec<K> = v.iter_kmers::<K>().take(nk + 8).collect();
    if it.len() != nk {
        return Err(ctx(format!("iter_kmers yields {} items, want {}", it.len(), nk)));
    }
    for (i, km) in it.iter().enumerate() {
        expect(&format!("iter_kmers item {}", i), *km, &model[i..i + k]).map_err(ctx)?;
    }
    // the same items must come out through the iterator adaptors (nth / skip / step_by / last / count): an
    // iterator may override these for speed, but not change what they yield
    {
        let all: Vec<Vec<u8>> = (0..nk).map(|i| model[i..i + k].to_vec()).collect();
        let is = |x: &K, i: usize| -> bool { i < nk && (0..k).all(|j| x.get(j) == model[i + j]) };
        for n_skip in [0usize, 1, 4, 5, 6, 7, k.saturating_sub(1), k, k + 1, 2 * k + 1, nk.saturating_sub(1), nk, nk + 3] {
            let mut it = v.iter_kmers::<K>();
            let got = it.nth(n_skip).map(|x| crate::ktypes::kseq(&x));
            if got.as_ref() != all.get(n_skip) {
                return Err(ctx(format!("iter_kmers().nth({}) yields {:?}, expected item {} of {}", n_skip, got.map(|g| to_ascii(&g)), n_skip, nk)));
            }
            // ... and the iterator carries on from there: same items as plain iteration, to the end
            let mut pos = (n_skip + 1).min(nk);
            let first_after = pos;
            for x in it.take(nk + 4) {
                // the first few items after the skip are compared base by base, the rest counted
                if pos < first_after + 4 && !is(&x, pos) {
                    return Err(ctx(format!(
                        "after iter_kmers().nth({}) the next() calls yield {} where item {} of {} is due",
                        n_skip,
                        to_ascii(&crate::ktypes::kseq(&x)),
                        pos,
                        nk
                    )));
                }
                pos += 1;
            }
            if pos != nk {
                return Err(ctx(format!("after iter_kmers().nth({}) {} items remain, expected {}", n_skip, pos.saturating_sub(n_skip + 1), nk.saturating_sub(n_skip + 1))));
            }
        }
        // interleaved positioning calls on one iterator: nth(a), next(), nth(b), next(), next()
        for (a, b) in [(k, 0usize), (k + 1, k), (1, k), (k, k + 2), (0, 2 * k), (3, 3)] {
            let mut it = v.iter_kmers::<K>();
            let mut cur = 0usize;
            for (ci, call) in [Some(a), None, Some(b), None, None].iter().enumerate() {
                let (got, adv) = match call {
                    Some(n) => (it.nth(*n), *n),
                    None => (it.next(), 0),
                };
                let due = if cur < nk && adv < nk - cur { Some(cur + adv) } else { None };
                let ok = match (&got, due) {
                    (None, None) => true,
                    (Some(x), Some(i)) => is(x, i),
                    _ => false,
                };
                if !ok {
                    return Err(ctx(format!(
                        "iter_kmers() call {} of [nth({}), next(), nth({}), next(), next()] yields {:?}, item {:?} of {} is due",
                        ci,
                        a,
                        b,
                        got.map(|x| to_ascii(&crate::ktypes::kseq(&x))),
                        due,
                        nk
                    )));
                }
                cur = match due {
                    Some(i) => i + 1,
                    None => nk,
                };
            }
        }
        for step in [5usize, 6, 7, 29] {
            let got: Vec<Vec<u8>> = v.iter_kmers::<K>().step_by(step).take(nk + 4).map(|x| crate::ktypes::kseq(&x)).collect();
            let want: Vec<Vec<u8>> = all.iter().step_by(step).cloned().collect();
            if got != want {
                return Err(ctx(format!("iter_kmers().step_by({}) yields {} items, expected {}", step, got.len(), want.len())));
            }
        }
        if v.iter_kmers::<K>().take(nk + 4).count() != nk || v.iter_kmers::<K>().last().map(|x| crate::ktypes::kseq(&x)).as_ref() != all.last() {
            return Err(ctx("iter_kmers().count()/last() disagree with plain iteration".into()));
        }
        let bases: Vec<u8> = v.iter().take(n + 4).collect();
        let skipped: Vec<u8> = v.iter().skip(5).take(n + 4).collect();
        let mut bi = v.iter();
        let third = bi.nth(2);
        let fourth = bi.next();
        if bases != model
            || skipped[..] != model[n.min(5)..]
            || third != model.get(2).copied()
            || fourth != model.get(3).copied()
            || v.iter().nth(n).is_some()
        {
            return Err(ctx("iter() / skip / nth over the bases disagree with the sequence".into()));
        }
        let ex_skip: Vec<(K, Exts)> = v.iter_kmer_exts::<K>(Exts::new(bexts)).skip(6).take(nk + 4).collect();
        if ex_skip.len() != nk.saturating_sub(6) {
            return Err(ctx(format!("iter_kmer_exts().skip(6) yields {} items, expected {}", ex_skip.len(), nk.saturating_sub(6))));
        }
        for (j, (km, _)) in ex_skip.iter().enumerate() {
            if !is(km, j + 6) {
                return Err(ctx(format!("iter_kmer_exts().skip(6) item {} is {}, not the k-mer at position {}", j, to_ascii(&crate::ktypes::kseq(km)), j + 6)));
            }
        }
        let ex_k: Vec<(K, Exts)> = v.iter_kmer_exts::<K>(Exts::new(bexts)).skip(k + 1).take(nk + 4).collect();
        if ex_k.len() != nk.saturating_sub(k + 1) || ex_k.iter().enumerate().any(|(j, (km, _))| !is(km, j + k + 1)) {
            return Err(ctx(format!("iter_kmer_exts().skip({}) disagrees with plain iteration", k + 1)));
        }
    }
    if nk > 0 {
        expect("first_kmer", v.first_kmer::<K>(), &model[..k]).map_err(ctx)?;
        expect("last_kmer", v.last_kmer::<K>(), &model[n - k..]).map_err(ctx)?;
        expect("term_kmer(Left)", v.term_kmer::<K>(Dir::Left), &model[..k]).map_err(ctx)?;
        expect("term_kmer(Right)", v.term_kmer::<K>(Dir::Right), &model[n - k..]).map_err(ctx)?;
        let (a, b): (K, K) = v.both_term_kmer();
        expect("both_term_kmer.0", a, &model[..k]).map_err(ctx)?;
        expect("both_term_kmer.1", b, &model[n - k..]).map_err(ctx)?;
    }
    let ex: Vec<(K, Exts)> = v.iter_kmer_exts::<K>(Exts::new(bexts)).take(nk + 8).collect();
    if ex.len() != nk {
        return Err(ctx(format!("iter_kmer_exts yields {} items, want {}", ex.len(), nk)));
    }
    for (i, (km, e)) in ex.iter().enumerate() {
        expect(&format!("iter_kmer_exts item {}", i), *km, &model[i..i + k]).map_err(ctx)?;
        let l = if i == 0 { bexts & 0xf } else { 1u8 << model[i - 1] };
        let r = if i + k == n { bexts >> 4 } else { 1u8 << model[i + k] };
        if e.val != (l | (r << 4)) {
            return Err(ctx(format!(
                "iter_kmer_exts item {}: extensions {:#04x}, flanking bases / boundary give {:#04x}",
                i,
                e.val,
                l | (r << 4)
            )));
        }
    }
    Ok(())
}

pub fn check<K: Kmer>(c: &Case) -> CheckResult {
    let k = K::k();
    let m = &c.seq;
    let n = m.len();
    check_container::<K, _>("DnaBytes", &DnaBytes(m.clone()), m, c.bexts)?;
    check_container::<K, _>("DnaSlice", &DnaSlice(m), m, c.bexts)?;
    let ds = DnaString::from_bytes(m);
    check_container::<K, _>("DnaString", &ds, m, c.bexts)?;
    // slices at an offset into a longer backing string
    let (lf, rf) = (c.lflank as usize, c.rflank as usize);
    let mut backing: Seq = (0..lf).map(|i| ((i * 7 + 3) % 4) as u8).collect();
    backing.extend_from_slice(m);
    backing.extend((0..rf).map(|i| ((i * 5 + 1) % 4) as u8));
    let bs = DnaString::from_bytes(&backing);
    let fwd = bs.slice(lf, lf + n);
    check_container::<K, _>("DnaStringSlice", &fwd, m, c.bexts)?;
    let rcm = rc(m);
    let rcs = fwd.rc();
    check_container::<K, _>("DnaStringSlice.rc()", &rcs, &rcm, c.bexts)?;
    check_container::<K, _>("DnaStringSlice.rc().rc()", &rcs.rc(), m, c.bexts)?;
    // conversions between containers: the owned copy of a view holds the view's k-mers
    check_container::<K, _>("DnaStringSlice.to_owned()", &fwd.to_owned(), m, c.bexts)?;
    check_container::<K, _>("DnaStringSlice.rc().to_owned()", &rcs.to_owned(), &rcm, c.bexts)?;
    // nested slices, forward and reverse-complemented
    if n > 0 {
        let a = crate::util::idx(c.sub.0, n + 1);
        let b = a + crate::util::idx(c.sub.1, n - a + 1);
        let sub = fwd.slice(a, b);
        check_container::<K, _>("DnaStringSlice.slice", &sub, &m[a..b], c.bexts)?;
        let subrc = rcs.slice(a, b);
        check_container::<K, _>("DnaStringSlice.rc().slice", &subrc, &rcm[a..b], c.bexts)?;
        let pre = bs.prefix(lf + a);
        let pre2 = pre.slice(lf, lf + a);
        check_container::<K, _>("prefix.slice", &pre2, &backing[lf..lf + a], c.bexts)?;
        check_container::<K, _>("suffix", &bs.suffix(rf + (n - a)), &backing[lf + a..], c.bexts)?;
    }
    // fixed-size strings of every capacity that can hold the sequence
    let mut lmer = false;
    macro_rules! lm {
        ($w:expr) => {
            if n <= ($w * 64 - 8) / 2 {
                let l = Lmer::<[u64; $w]>::from_slice(m);
                check_container::<K, _>(concat!("Lmer", stringify!($w)), &l, m, c.bexts)?;
                lmer = true;
            }
        };
    }
    lm!(1);
    lm!(2);
    lm!(3);
    lm!(4);
    lm!(5);
    lm!(6);
    // bulk constructors
    crate::props::c10::chk_bulk::<K>(m)?;
    let crosses = n > 32 || lf % 32 + n > 32;
    let storage_bits = std::mem::size_of::<K>() * 8;
    Ok(Outcome::new(n > k && (crosses || storage_bits != 64))
        .label(n < k, "n<K")
        .label(n == k, "n==K")
        .label(crosses, "crosses_32_block")
        .label(lmer, "lmer_checked")
        .label(n > 64, "n>64")
        .label(c.bexts != 0, "boundary_exts"))
}

fn build<K: Kmer + 'static>(name: &'static str, _env: &Env) -> Vec<Box<dyn Job>> {
    let k = K::k();
    vec![PropJob::new(
        format!("extract/{}", name),
        400,
        12000,
        move |e: &Env| case_strategy(k, e),
        |c: &Case| check::<K>(c),
    )
    .with_render(|c: &Case| json!({"seq": to_ascii(&c.seq), "lflank": c.lflank}))
    .boxed()]
}

#[cfg(not(fuzzing))]
pub fn jobs(env: &Env) -> Vec<Box<dyn Job>> {
    let mut out: Vec<Box<dyn Job>> = Vec::new();
    crate::kmers_all!(build, out, env);
    out
}
