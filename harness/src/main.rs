//! `check <ID> quick|thorough`  — run one property's check, write evidence, print verdict lines.
//! `check <ID> --replay <file>` — re-execute one saved case directly.
//! Exit codes: 0 held, 1 violation (with `VIOLATION property=<id> replay=<path>` lines), 2 inconclusive / harness problem.

use dbgv::findings::{Findings, Match};
use dbgv::props;
use dbgv::runner::{install_panic_hook, run_jobs, Env, Failure, Tier};
use serde_json::{json, Map, Value};
use std::collections::{BTreeMap, HashSet};
use std::path::{Path, PathBuf};
use std::time::Instant;

fn verif_root() -> PathBuf {
    std::env::var("VERIF_ROOT")
        .map(PathBuf::from)
        .unwrap_or_else(|_| PathBuf::from("/verif"))
}

fn usage() -> ! {
    eprintln!("usage: check <ID> quick|thorough | check <ID> --replay <file> | check --list");
    std::process::exit(2);
}

fn main() {
    let args: Vec<String> = std::env::args().skip(1).collect();
    if args.is_empty() {
        usage();
    }
    if args[0] == "--list" {
        for id in props::all_ids() {
            println!("{}", id);
        }
        return;
    }
    let id = args[0].clone();
    if !props::all_ids().contains(&id.as_str()) {
        eprintln!("unknown property {}", id);
        std::process::exit(2);
    }
    install_panic_hook();
    let seed: u64 = std::env::var("VERIF_SEED")
        .ok()
        .and_then(|s| s.trim().parse::<i128>().ok())
        .map(|v| v as u64)
        .unwrap_or(20260926);
    let scale: f64 = std::env::var("VERIF_SCALE")
        .ok()
        .and_then(|s| s.parse().ok())
        .unwrap_or(1.0)
        * props::mult(&id)
        * if args.get(1).map(|s| s.as_str()) == Some("thorough") { 0.3 } else { 1.0 };
    let threads: usize = std::env::var("VERIF_JOBS")
        .ok()
        .and_then(|s| s.parse().ok())
        .unwrap_or(16);

    if args.len() >= 3 && args[1] == "--replay" {
        let env = Env {
            tier: Tier::Thorough,
            seed,
            scale,
        };
        let code = replay_file(&id, Path::new(&args[2]), &env, true);
        std::process::exit(code);
    }

    let tier = match args.get(1).map(|s| s.as_str()) {
        Some("quick") | None => Tier::Quick,
        Some("thorough") => Tier::Thorough,
        _ => usage(),
    };
    let env = Env { tier, seed, scale };
    let root = verif_root();
    let t0 = Instant::now();

    // watchdog: a hang is reported as inconclusive (exit 2), never as a violation
    let limit_s: u64 = std::env::var("VERIF_WATCHDOG_S")
        .ok()
        .and_then(|s| s.parse().ok())
        .unwrap_or(match tier {
            Tier::Quick => 1500,
            Tier::Thorough => 6 * 3600,
        });
    {
        let id = id.clone();
        std::thread::spawn(move || {
            std::thread::sleep(std::time::Duration::from_secs(limit_s));
            println!(
                "INCONCLUSIVE property={} watchdog expired after {} s (hang or overload; not a violation)",
                id, limit_s
            );
            std::process::exit(2);
        });
    }

    let findings = Findings::load(&root.join("known_findings.json"));
    for line in findings.fixed_lines(&id) {
        // informational only; a fixed entry suppresses nothing
        eprintln!("{}", line);
    }

    let mut violations: Vec<(String, PathBuf)> = Vec::new();
    let mut known_lines: Vec<String> = Vec::new();
    let mut harness_problem = false;

    // 1. replay the committed corpus (golden cases + minimal repro of every past finding)
    let corpus_dir = root.join("corpus").join(&id);
    let mut corpus_n = 0u64;
    let mut corpus_files: Vec<PathBuf> = std::fs::read_dir(&corpus_dir)
        .map(|rd| {
            rd.filter_map(|e| e.ok())
                .map(|e| e.path())
                .filter(|p| p.extension().map(|x| x == "json").unwrap_or(false))
                .collect()
        })
        .unwrap_or_default();
    corpus_files.sort();
    let jobs = props::jobs(&id, &env);
    for f in &corpus_files {
        corpus_n += 1;
        match replay_one(&id, f, &jobs) {
            Ok(Ok(_)) => {}
            Ok(Err(msg)) => {
                let case = read_case(f).unwrap_or(Value::Null);
                let job = read_job(f).unwrap_or_default();
                match findings.matches(&id, &job, &msg, &case) {
                    Match::Open(what) => known_lines.push(format!("KNOWN-FINDING: property={} {}", id, what)),
                    Match::None => {
                        eprintln!("corpus case {} fails: {}", f.display(), msg);
                        violations.push((msg, f.clone()));
                    }
                }
            }
            Err(e) => {
                eprintln!("HARNESS: cannot replay corpus file {}: {}", f.display(), e);
                harness_problem = true;
            }
        }
    }

    // 2. generated search
    let reports = run_jobs(&jobs, &env, threads);

    let replay_dir = root.join("replays").join(&id);
    let _ = std::fs::remove_dir_all(&replay_dir);
    let mut evaluations = 0u64;
    let mut distinct: HashSet<u64> = HashSet::new();
    let mut labels: BTreeMap<String, u64> = BTreeMap::new();
    let mut samples: Vec<Value> = Vec::new();
    let mut per_job = Map::new();
    let mut all_exhaustive_jobs: Vec<String> = Vec::new();
    let mut extra_all = Map::new();
    for r in &reports {
        evaluations += r.evaluations;
        for h in &r.nontrivial {
            distinct.insert(*h ^ dbgv::util::fnv64_str(&r.name));
        }
        for (k, v) in &r.labels {
            *labels.entry(k.clone()).or_insert(0) += *v;
        }
        if samples.len() < 8 {
            if let Some(s) = r.samples.first() {
                samples.push(json!({"job": r.name, "sample": s}));
            }
        }
        if r.exhaustive {
            all_exhaustive_jobs.push(r.name.clone());
        }
        per_job.insert(
            r.name.clone(),
            json!({
                "evaluations": r.evaluations,
                "distinct_nontrivial": r.nontrivial.len(),
                "labels": r.labels,
                "exhaustive": r.exhaustive,
                "wall_s": (r.wall_s * 1000.0).round() / 1000.0,
                "failures": r.failures.len(),
                "extra": r.extra,
            }),
        );
        for (k, v) in &r.extra {
            extra_all.insert(format!("{}::{}", r.name, k), v.clone());
        }
        for (fi, fail) in r.failures.iter().enumerate() {
            if fail.message.starts_with("generator aborted") {
                eprintln!("HARNESS: job {}: {}", r.name, fail.message);
                harness_problem = true;
                continue;
            }
            match findings.matches(&id, &r.name, &fail.message, &fail.case) {
                Match::Open(what) => {
                    known_lines.push(format!("KNOWN-FINDING: property={} {}", id, what));
                }
                Match::None => {
                    let path = write_replay(&replay_dir, &id, &r.name, fi, fail, &env);
                    eprintln!("job {} failed: {}", r.name, fail.message);
                    violations.push((fail.message.clone(), path));
                }
            }
        }
    }
    // any second-and-later samples, to reach a few more written-out cases
    for r in &reports {
        if samples.len() >= 12 {
            break;
        }
        for s in r.samples.iter().skip(1) {
            if samples.len() < 12 {
                samples.push(json!({"job": r.name, "sample": s}));
            }
        }
    }
    if samples.is_empty() {
        samples.push(json!({"note": "no non-trivial case was generated in this run"}));
    }

    // results of the libFuzzer campaign that ran before this process (thorough tier), if any
    let mut fuzz_embed: Option<Value> = None;
    if let Ok(p) = std::env::var("VERIF_EMBED_FUZZ") {
        if let Some(v) = std::fs::read_to_string(&p).ok().and_then(|t| serde_json::from_str::<Value>(&t).ok()) {
            if let Some(vs) = v["violations"].as_array() {
                for x in vs {
                    let prop = x["property"].as_str().unwrap_or("");
                    if prop == id {
                        let rp = PathBuf::from(x["replay"].as_str().unwrap_or(""));
                        eprintln!("libFuzzer campaign: {}", x["message"].as_str().unwrap_or(""));
                        violations.push((x["message"].as_str().unwrap_or("").to_string(), rp));
                    }
                }
            }
            fuzz_embed = Some(v);
        }
    }

    let wall = t0.elapsed().as_secs_f64();
    let meta = props::meta(&id);
    let mut coverage = Map::new();
    coverage.insert("evaluations".into(), json!(evaluations));
    coverage.insert("distinct_nontrivial".into(), json!(distinct.len()));
    coverage.insert("rule".into(), json!(meta.rule));
    coverage.insert("samples".into(), Value::Array(samples));
    coverage.insert("labels".into(), json!(labels));
    coverage.insert("jobs".into(), Value::Object(per_job));
    coverage.insert("corpus_cases_replayed".into(), json!(corpus_n));
    coverage.insert("generated_cases_plus_corpus".into(), json!(evaluations + corpus_n));
    if !all_exhaustive_jobs.is_empty() {
        coverage.insert("exhaustive_jobs".into(), json!(all_exhaustive_jobs));
    }
    coverage.insert(
        "exhaustive".into(),
        json!(!reports.is_empty() && reports.iter().all(|r| r.exhaustive)),
    );
    if !extra_all.is_empty() {
        coverage.insert("extra".into(), Value::Object(extra_all));
    }
    if let Some(f) = fuzz_embed {
        coverage.insert("libfuzzer".into(), f);
    }
    coverage.insert("threads".into(), json!(threads));
    coverage.insert(
        "build_profile".into(),
        json!(if cfg!(debug_assertions) { "release + debug-assertions + overflow-checks" } else { "relfast (no debug assertions, no overflow checks)" }),
    );
    if let Ok(p) = std::env::var("VERIF_EMBED_RELFAST") {
        if let Some(v) = std::fs::read_to_string(&p).ok().and_then(|t| serde_json::from_str::<Value>(&t).ok()) {
            coverage.insert(
                "second_profile_run".into(),
                json!({
                    "profile": v["coverage"]["build_profile"],
                    "evaluations": v["coverage"]["evaluations"],
                    "distinct_nontrivial": v["coverage"]["distinct_nontrivial"],
                    "violations": v["violations"],
                    "wall_s": v["wall_s"],
                }),
            );
        }
    }
    let ev = json!({
        "property_id": id,
        "tier": tier.as_str(),
        "seed": (seed & 0x7fff_ffff_ffff_ffff) as i64,
        "level": "exploration",
        "coverage": Value::Object(coverage),
        "assumptions": meta.assumptions,
        "wall_s": (wall * 1000.0).round() / 1000.0,
        "violations": violations.len(),
        "known_findings_reported": known_lines.len(),
        "technique": meta.technique,
    });
    let ev_dir = std::env::var("VERIF_EVIDENCE_DIR")
        .map(PathBuf::from)
        .unwrap_or_else(|_| root.join("evidence"));
    let _ = std::fs::create_dir_all(&ev_dir);
    let ev_path = ev_dir.join(format!("{}.json", id));
    if let Err(e) = std::fs::write(&ev_path, serde_json::to_string_pretty(&ev).unwrap() + "\n") {
        eprintln!("HARNESS: cannot write evidence {}: {}", ev_path.display(), e);
        harness_problem = true;
    }

    known_lines.sort();
    known_lines.dedup();
    for l in &known_lines {
        println!("{}", l);
    }
    println!(
        "property={} tier={} seed={} evaluations={} distinct_nontrivial={} corpus={} violations={} wall_s={:.1}",
        id,
        tier.as_str(),
        seed,
        evaluations,
        distinct.len(),
        corpus_n,
        violations.len(),
        wall
    );
    if !violations.is_empty() {
        for (_, p) in &violations {
            println!("VIOLATION property={} replay={}", id, p.display());
        }
        std::process::exit(1);
    }
    if harness_problem {
        std::process::exit(2);
    }
    if distinct.len() < 2 {
        eprintln!("HARNESS: fewer than 2 distinct non-trivial cases; generator problem");
        std::process::exit(2);
    }
    std::process::exit(0);
}

fn write_replay(dir: &Path, id: &str, job: &str, idx: usize, fail: &Failure, env: &Env) -> PathBuf {
    let _ = std::fs::create_dir_all(dir);
    let safe: String = job
        .chars()
        .map(|c| if c.is_ascii_alphanumeric() || c == '-' || c == '_' { c } else { '_' })
        .collect();
    let path = dir.join(format!("{}.{}.json", safe, idx));
    let v = json!({
        "property": id,
        "job": job,
        "message": fail.message,
        "seed": env.seed.to_string(),
        "tier": env.tier.as_str(),
        "case": fail.case,
    });
    let _ = std::fs::write(&path, serde_json::to_string_pretty(&v).unwrap() + "\n");
    path
}

fn read_case(f: &Path) -> Option<Value> {
    let v: Value = serde_json::from_str(&std::fs::read_to_string(f).ok()?).ok()?;
    v.get("case").cloned()
}

fn read_job(f: &Path) -> Option<String> {
    let v: Value = serde_json::from_str(&std::fs::read_to_string(f).ok()?).ok()?;
    v.get("job").and_then(|j| j.as_str()).map(|s| s.to_string())
}

fn replay_one(
    id: &str,
    f: &Path,
    jobs: &[Box<dyn dbgv::runner::Job>],
) -> Result<dbgv::runner::CheckResult, String> {
    let text = std::fs::read_to_string(f).map_err(|e| e.to_string())?;
    let v: Value = serde_json::from_str(&text).map_err(|e| e.to_string())?;
    if let Some(p) = v.get("property").and_then(|p| p.as_str()) {
        if p != id {
            return Err(format!("file is for property {}, not {}", p, id));
        }
    }
    let job = v
        .get("job")
        .and_then(|j| j.as_str())
        .ok_or_else(|| "no job field".to_string())?;
    let case = v.get("case").ok_or_else(|| "no case field".to_string())?;
    let j = jobs
        .iter()
        .find(|j| j.name() == job)
        .ok_or_else(|| format!("no job named {}", job))?;
    j.replay(case)
}

fn replay_file(id: &str, f: &Path, env: &Env, verbose: bool) -> i32 {
    let jobs = props::jobs(id, env);
    match replay_one(id, f, &jobs) {
        Ok(Ok(out)) => {
            if verbose {
                println!("replay {}: property held ({:?})", f.display(), out);
            }
            0
        }
        Ok(Err(msg)) => {
            println!("replay {}: {}", f.display(), msg);
            println!("VIOLATION property={} replay={}", id, f.display());
            1
        }
        Err(e) => {
            eprintln!("HARNESS: {}", e);
            2
        }
    }
}
