//! Wrappers that drive the real construction entry points, and model-side predicates on their results.

use std::collections::{BTreeMap, BTreeSet};
use std::fmt::Debug;

use boomphf::hashmap::BoomHashMap2;
use debruijn::compression::{
    compress_kmers, compress_kmers_no_exts, compress_kmers_with_hash, CompressionSpec, ScmapCompress, SimpleCompress,
};
use debruijn::filter::{filter_kmers, remove_censored_exts, CountFilterSet};
use debruijn::graph::{BaseGraph, DebruijnGraph};
use debruijn::{DnaBytes, Exts, Kmer};
use serde::{de::DeserializeOwned, Deserialize, Serialize};

use crate::ktypes::kseq;
use crate::model::{self, Entry, Read, Table, LEFT, RIGHT};
use crate::util::{canon, fnv64, is_pal, rc, to_ascii, Seq};

// ------------------------------------------------------------------------------------------------
// payloads

pub trait PayKind: Clone + Debug + PartialEq + Send + Sync + Serialize + DeserializeOwned + 'static {
    type Spec: CompressionSpec<Self>;
    const NAME: &'static str;
    fn of(key: &Seq, entry: &Entry) -> Self;
    fn spec() -> Self::Spec;
    fn join(a: &Self, b: &Self) -> bool;
    /// expected payload of a node containing exactly these k-mer payloads (order-free)
    fn fold(parts: &[Self]) -> Self;
}

/// Commutative-monoid payload: a lost, duplicated or foreign k-mer changes (count, xor-hash, n).
#[derive(Clone, Debug, PartialEq, Serialize, Deserialize)]
pub struct SumPay {
    pub count: u64,
    pub xh: u64,
    pub n: u32,
}

fn sum_reduce(a: SumPay, b: &SumPay) -> SumPay {
    SumPay {
        count: a.count + b.count,
        xh: a.xh ^ b.xh,
        n: a.n + b.n,
    }
}

impl PayKind for SumPay {
    type Spec = SimpleCompress<SumPay, fn(SumPay, &SumPay) -> SumPay>;
    const NAME: &'static str = "sum";
    fn of(key: &Seq, entry: &Entry) -> Self {
        SumPay {
            count: entry.count() as u64,
            xh: fnv64(key),
            n: 1,
        }
    }
    fn spec() -> Self::Spec {
        SimpleCompress::new(sum_reduce as fn(SumPay, &SumPay) -> SumPay)
    }
    fn join(_: &Self, _: &Self) -> bool {
        true
    }
    fn fold(parts: &[Self]) -> Self {
        let mut it = parts.iter();
        let mut acc = it.next().cloned().unwrap_or(SumPay { count: 0, xh: 0, n: 0 });
        for p in it {
            acc = sum_reduce(acc, p);
        }
        acc
    }
}

/// Colour payload with the shipped equality ("colour") join predicate.
#[derive(Clone, Debug, PartialEq, Serialize, Deserialize)]
pub struct ColPay(pub Vec<u8>);

impl PayKind for ColPay {
    type Spec = ScmapCompress<ColPay>;
    const NAME: &'static str = "colour";
    fn of(_key: &Seq, entry: &Entry) -> Self {
        ColPay(entry.labels())
    }
    fn spec() -> Self::Spec {
        ScmapCompress::new()
    }
    fn join(a: &Self, b: &Self) -> bool {
        a == b
    }
    fn fold(parts: &[Self]) -> Self {
        parts.first().cloned().unwrap_or(ColPay(Vec::new()))
    }
}

/// The crate's own idiom: u16 counts reduced with saturating addition.
#[derive(Clone, Debug, PartialEq, Serialize, Deserialize)]
pub struct U16Pay(pub u16);

fn u16_reduce(a: U16Pay, b: &U16Pay) -> U16Pay {
    U16Pay(a.0.saturating_add(b.0))
}

impl PayKind for U16Pay {
    type Spec = SimpleCompress<U16Pay, fn(U16Pay, &U16Pay) -> U16Pay>;
    const NAME: &'static str = "u16sat";
    fn of(_key: &Seq, entry: &Entry) -> Self {
        U16Pay(entry.count().min(65535) as u16)
    }
    fn spec() -> Self::Spec {
        SimpleCompress::new(u16_reduce as fn(U16Pay, &U16Pay) -> U16Pay)
    }
    fn join(_: &Self, _: &Self) -> bool {
        true
    }
    fn fold(parts: &[Self]) -> Self {
        U16Pay(parts.iter().fold(0u16, |a, p| a.saturating_add(p.0)))
    }
}

// ------------------------------------------------------------------------------------------------
// model table with payloads

pub type PTable<P> = BTreeMap<Seq, (u8, P)>;

/// Model table restricted to k-mers observed at least `min_count` times, with payloads.
pub fn ptable<P: PayKind>(t: &Table, min_count: usize) -> PTable<P> {
    t.iter()
        .filter(|(_, e)| e.count() >= min_count)
        .map(|(k, e)| (k.clone(), (e.exts, P::of(k, e))))
        .collect()
}

/// Model of the adjacency implied by a bare k-mer set (entry point "k-mers without extensions").
pub fn implied_exts<P: Clone>(t: &PTable<P>, stranded: bool) -> PTable<P> {
    let mut out = BTreeMap::new();
    for (key, (_, d)) in t {
        let mut e = 0u8;
        for side in [LEFT, RIGHT] {
            for b in 0..4u8 {
                let (nb, _, _) = model::neighbour(key, side, b, stranded);
                if t.contains_key(&nb) {
                    e |= model::ext_with(side, b);
                }
            }
        }
        out.insert(key.clone(), (e, d.clone()));
    }
    out
}

// ------------------------------------------------------------------------------------------------
// driving the real code

pub fn to_seqs(reads: &[Read]) -> Vec<(DnaBytes, Exts, u8)> {
    reads
        .iter()
        .map(|r| (DnaBytes(r.seq.clone()), Exts::new(r.exts), r.label))
        .collect()
}

/// filter_kmers with the shipped CountFilterSet; returns (k-mer string, exts byte, labels) in hash order.
pub fn real_filter<K: Kmer>(reads: &[Read], stranded: bool, min_count: usize) -> Result<BoomHashMap2<K, Exts, Vec<u8>>, String> {
    let seqs = to_seqs(reads);
    let (bm, _) = filter_kmers::<K, DnaBytes, u8, Vec<u8>, CountFilterSet<u8>>(
        &seqs,
        &Box::new(CountFilterSet::new(min_count)),
        stranded,
        false,
        1,
    );
    // the two shipped summarizers must agree on the key set and on every extension set
    // (thresholds used by the graph checks are far below the 65 535 count cap, where they coincide by definition)
    let (bc, _) = filter_kmers::<K, DnaBytes, u8, u16, debruijn::filter::CountFilter>(
        &seqs,
        &Box::new(debruijn::filter::CountFilter::new(min_count)),
        stranded,
        false,
        1,
    );
    if bc.len() != bm.len() {
        return Err(format!(
            "CountFilter retains {} k-mers, CountFilterSet {} (same threshold {})",
            bc.len(),
            bm.len(),
            min_count
        ));
    }
    for (k, e, _) in bm.iter() {
        match bc.get(k) {
            Some((e2, _)) if e2.val == e.val => {}
            Some((e2, _)) => {
                return Err(format!(
                    "k-mer {}: CountFilter reports extensions {:#04x}, CountFilterSet {:#04x}",
                    to_ascii(&kseq(k)),
                    e2.val,
                    e.val
                ))
            }
            None => return Err(format!("k-mer {} retained by CountFilterSet but not by CountFilter", to_ascii(&kseq(k)))),
        }
    }
    Ok(bm)
}

/// Compare the real table's keys/extensions with the model's and attach model payloads:
/// returns (keys, exts, data) in the real table's (hash) order.
pub fn attach_payloads<K: Kmer, P: PayKind>(
    bm: &BoomHashMap2<K, Exts, Vec<u8>>,
    pt: &PTable<P>,
    stranded: bool,
) -> Result<(Vec<K>, Vec<Exts>, Vec<P>), String> {
    if bm.len() != pt.len() {
        return Err(format!(
            "k-mer table has {} keys, reference grouping has {}",
            bm.len(),
            pt.len()
        ));
    }
    let mut keys = Vec::new();
    let mut exts = Vec::new();
    let mut data = Vec::new();
    for (k, e, _labels) in bm.iter() {
        let s = kseq(k);
        let (me, p) = pt
            .get(&s)
            .ok_or_else(|| format!("k-mer table contains {} which the reference grouping does not", to_ascii(&s)))?;
        let same = if !stranded && is_pal(&s) {
            model::ext_closure(e.val) == model::ext_closure(*me)
        } else {
            e.val == *me
        };
        if !same {
            return Err(format!(
                "k-mer {}: extensions {:#04x} differ from reference {:#04x}",
                to_ascii(&s),
                e.val,
                me
            ));
        }
        keys.push(*k);
        exts.push(*e);
        data.push(p.clone());
    }
    Ok((keys, exts, data))
}

#[derive(Copy, Clone, Debug, PartialEq, Eq, Serialize, Deserialize)]
pub enum Entry3 {
    /// filter_kmers -> BoomHashMap2 -> compress_kmers_with_hash
    Hash,
    /// sorted slice -> remove_censored_exts -> compress_kmers
    SortedSlice,
    /// bare k-mers -> compress_kmers_no_exts
    NoExts,
    /// sorted slice handed to compress_kmers as it is (extensions to rejected / out-of-shard k-mers still present)
    SortedSliceRaw,
}

/// Build a BaseGraph through the chosen entry point.  Returns the graph and the model table that
/// describes exactly what was handed to compression (extensions as given to it).
pub fn build_base<K: Kmer, P: PayKind>(
    reads: &[Read],
    stranded: bool,
    min_count: usize,
    entry: Entry3,
) -> Result<(BaseGraph<K, P>, PTable<P>), String> {
    let k = K::k();
    let mt = model::build_table(reads, k, stranded);
    let pt: PTable<P> = ptable(&mt, min_count);
    let bm = real_filter::<K>(reads, stranded, min_count)?;
    let (keys, exts, data) = attach_payloads::<K, P>(&bm, &pt, stranded)?;
    let spec = P::spec();
    match entry {
        Entry3::Hash => {
            let index = BoomHashMap2::new(keys, exts, data);
            let g = compress_kmers_with_hash(stranded, &spec, &index);
            Ok((g, pt))
        }
        Entry3::SortedSlice => {
            let mut v: Vec<(K, (Exts, P))> = keys
                .into_iter()
                .zip(exts.into_iter().zip(data.into_iter()))
                .collect();
            v.sort_by(|a, b| a.0.cmp(&b.0));
            remove_censored_exts(stranded, &mut v);
            // the pruned extensions must equal the model's pruning, bit for bit
            let pruned = model::prune_exts(&pt, stranded);
            for (kk, (e, _)) in &v {
                let s = kseq(kk);
                let me = pruned[&s].0;
                let same = if !stranded && is_pal(&s) {
                    model::ext_closure(e.val) == model::ext_closure(me)
                } else {
                    e.val == me
                };
                if !same {
                    return Err(format!(
                        "remove_censored_exts: k-mer {} has extensions {:#04x}, reference pruning gives {:#04x}",
                        to_ascii(&s),
                        e.val,
                        me
                    ));
                }
            }
            let g = compress_kmers(stranded, &spec, &v);
            // describe what compression saw: the real (pruned) extension bytes
            let seen: PTable<P> = v.iter().map(|(kk, (e, d))| (kseq(kk), (e.val, d.clone()))).collect();
            Ok((g, seen))
        }
        Entry3::SortedSliceRaw => {
            let mut v: Vec<(K, (Exts, P))> = keys
                .into_iter()
                .zip(exts.into_iter().zip(data.into_iter()))
                .collect();
            v.sort_by(|a, b| a.0.cmp(&b.0));
            let g = compress_kmers(stranded, &spec, &v);
            Ok((g, pt))
        }
        Entry3::NoExts => {
            let v: Vec<(K, P)> = keys.into_iter().zip(data.into_iter()).collect();
            let g = compress_kmers_no_exts(stranded, &spec, &v);
            Ok((g, implied_exts(&pt, stranded)))
        }
    }
}

// ------------------------------------------------------------------------------------------------
// views of real graphs

#[derive(Clone, Debug)]
pub struct NodeV<P> {
    pub seq: Seq,
    pub exts: u8,
    pub data: P,
}

pub fn nodes_of_base<K: Kmer, P: Clone>(g: &BaseGraph<K, P>) -> Vec<NodeV<P>> {
    (0..g.len())
        .map(|i| NodeV {
            seq: g.sequences.get(i).bytes(),
            exts: g.exts[i].val,
            data: g.data[i].clone(),
        })
        .collect()
}

pub fn nodes_of<K: Kmer, P: Clone + Debug>(g: &DebruijnGraph<K, P>) -> Vec<NodeV<P>> {
    nodes_of_base(&g.base)
}

#[derive(Debug, Default, Clone)]
pub struct LosslessStats {
    pub nodes: usize,
    pub multi_kmer_nodes: usize,
    pub kmers: usize,
}

/// C01 predicate: nodes partition the table's key set, steps follow recorded extensions on both k-mers,
/// payload = fold over exactly the node's k-mers.
pub fn check_lossless<P: PayKind>(
    nodes: &[NodeV<P>],
    table: &PTable<P>,
    k: usize,
    stranded: bool,
) -> Result<LosslessStats, String> {
    let mut seen: BTreeSet<Seq> = BTreeSet::new();
    let mut st = LosslessStats::default();
    st.nodes = nodes.len();
    for (ni, n) in nodes.iter().enumerate() {
        if n.seq.len() < k {
            return Err(format!("node {} is shorter than K ({} bases)", ni, n.seq.len()));
        }
        let nw = n.seq.len() - k + 1;
        if nw > 1 {
            st.multi_kmer_nodes += 1;
        }
        let mut pays: Vec<P> = Vec::with_capacity(nw);
        for i in 0..nw {
            let w = &n.seq[i..i + k];
            let c = canon(w, stranded);
            let ent = table.get(&c).ok_or_else(|| {
                format!(
                    "node {} ({}) contains k-mer {} at offset {} which is not in the input table",
                    ni,
                    to_ascii(&n.seq),
                    to_ascii(w),
                    i
                )
            })?;
            if !seen.insert(c.clone()) {
                return Err(format!(
                    "k-mer {} occurs more than once in the output (second time in node {} at offset {})",
                    to_ascii(&c),
                    ni,
                    i
                ));
            }
            pays.push(ent.1.clone());
            if i + 1 < nw {
                let y = &n.seq[i + 1..i + 1 + k];
                let b = y[k - 1];
                let a = w[0];
                // x side
                let ex = ent.0;
                let okx = if stranded {
                    model::ext_side(ex, RIGHT) & (1 << b) != 0
                } else if is_pal(w) {
                    model::ext_side(model::ext_closure(ex), RIGHT) & (1 << b) != 0
                } else if w == c.as_slice() {
                    model::ext_side(ex, RIGHT) & (1 << b) != 0
                } else {
                    model::ext_side(ex, LEFT) & (1 << (3 - b)) != 0
                };
                if !okx {
                    return Err(format!(
                        "node {} ({}): step {} -> {} is not an extension recorded for {}",
                        ni,
                        to_ascii(&n.seq),
                        to_ascii(w),
                        to_ascii(y),
                        to_ascii(w)
                    ));
                }
                let cy = canon(y, stranded);
                if let Some(enty) = table.get(&cy) {
                    let ey = enty.0;
                    let oky = if stranded {
                        model::ext_side(ey, LEFT) & (1 << a) != 0
                    } else if is_pal(y) {
                        model::ext_side(model::ext_closure(ey), LEFT) & (1 << a) != 0
                    } else if y == cy.as_slice() {
                        model::ext_side(ey, LEFT) & (1 << a) != 0
                    } else {
                        model::ext_side(ey, RIGHT) & (1 << (3 - a)) != 0
                    };
                    if !oky {
                        return Err(format!(
                            "node {} ({}): step {} -> {} is not an extension recorded for {}",
                            ni,
                            to_ascii(&n.seq),
                            to_ascii(w),
                            to_ascii(y),
                            to_ascii(y)
                        ));
                    }
                }
            }
        }
        let want = P::fold(&pays);
        if want != n.data {
            return Err(format!(
                "node {} ({}): payload {:?} differs from the reduction over its {} k-mers {:?}",
                ni,
                to_ascii(&n.seq),
                n.data,
                nw,
                want
            ));
        }
        st.kmers += nw;
    }
    if seen.len() != table.len() {
        let missing = table.keys().find(|k| !seen.contains(*k)).unwrap();
        return Err(format!(
            "{} of {} input k-mers are in no output node, e.g. {}",
            table.len() - seen.len(),
            table.len(),
            to_ascii(missing)
        ));
    }
    Ok(st)
}

/// Partition of canonical k-mers induced by the node list (sorted lists, sorted).
pub fn parts_of<P>(nodes: &[NodeV<P>], k: usize, stranded: bool) -> Vec<Vec<Seq>> {
    let mut parts: Vec<Vec<Seq>> = nodes
        .iter()
        .map(|n| {
            let mut v: Vec<Seq> = (0..=n.seq.len().saturating_sub(k))
                .filter(|_| n.seq.len() >= k)
                .map(|i| canon(&n.seq[i..i + k], stranded))
                .collect();
            v.sort();
            v
        })
        .collect();
    parts.sort();
    parts
}

/// parts with payloads (for graph-vs-graph comparisons)
pub fn parts_with_data<P: Clone + Debug>(nodes: &[NodeV<P>], k: usize, stranded: bool) -> Vec<(Vec<Seq>, String)> {
    let mut parts: Vec<(Vec<Seq>, String)> = nodes
        .iter()
        .map(|n| {
            let mut v: Vec<Seq> = (0..=n.seq.len().saturating_sub(k))
                .filter(|_| n.seq.len() >= k)
                .map(|i| canon(&n.seq[i..i + k], stranded))
                .collect();
            v.sort();
            (v, format!("{:?}", n.data))
        })
        .collect();
    parts.sort();
    parts
}

pub fn describe_partition_diff(got: &[Vec<Seq>], want: &[Vec<Seq>]) -> String {
    let gs: BTreeSet<&Vec<Seq>> = got.iter().collect();
    let ws: BTreeSet<&Vec<Seq>> = want.iter().collect();
    let extra: Vec<String> = gs
        .difference(&ws)
        .take(2)
        .map(|p| format!("[{}]", p.iter().map(|s| to_ascii(s)).collect::<Vec<_>>().join(",")))
        .collect();
    let missing: Vec<String> = ws
        .difference(&gs)
        .take(2)
        .map(|p| format!("[{}]", p.iter().map(|s| to_ascii(s)).collect::<Vec<_>>().join(",")))
        .collect();
    format!(
        "{} nodes vs {} expected; nodes not expected: {}; expected but absent: {}",
        got.len(),
        want.len(),
        extra.join(" "),
        missing.join(" ")
    )
}

/// canonical (K+1)-mers of the internal steps of the nodes
pub fn internal_kp1s<P>(nodes: &[NodeV<P>], k: usize, stranded: bool) -> BTreeSet<Seq> {
    let mut out = BTreeSet::new();
    for n in nodes {
        if n.seq.len() > k {
            for i in 0..n.seq.len() - k {
                out.insert(canon(&n.seq[i..i + k + 1], stranded));
            }
        }
    }
    out
}

pub fn rcseq(s: &[u8]) -> Seq {
    rc(s)
}

#[derive(Debug, Clone, Serialize, Deserialize)]
pub struct Dummy;
