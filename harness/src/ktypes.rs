//! The k-mer types under test and macros to instantiate a generic job builder for each of them.

pub use debruijn::kmer::{
    IntKmer, Kmer10, Kmer12, Kmer14, Kmer15, Kmer16, Kmer2, Kmer20, Kmer24, Kmer3, Kmer30, Kmer32,
    Kmer4, Kmer40, Kmer48, Kmer5, Kmer6, Kmer64, Kmer8, VarIntKmer, K12, K24, K3, K31, K4, K6,
};
use debruijn::Kmer;

/// 31-mer over u64 (the K31 marker is shipped; the crate's own tests use this type).
pub type Kmer31 = VarIntKmer<u64, K31>;
/// Full-width VarIntKmer (4 bases in a u8): the "unused bits = 0" corner of the partial-width code.
pub type Kmer4v = VarIntKmer<u8, K4>;

/// Instantiations of the public generic type with MORE storage than the shipped alias uses (every (T, K)
/// with 2K <= bits(T) is a legitimate k-mer type built from shipped parts).
pub type Kmer3w = VarIntKmer<u16, K3>;
pub type Kmer6w = VarIntKmer<u32, K6>;
pub type Kmer12w = VarIntKmer<u64, K12>;
pub type Kmer24w = VarIntKmer<u128, K24>;
pub type Kmer31w = VarIntKmer<u128, K31>;

/// Builder signature used with the macros below:
/// `fn build<K: Kmer + ...>(name: &'static str, env: &Env) -> Vec<Box<dyn Job>>`
#[macro_export]
macro_rules! kmers_list {
    ($f:ident, $out:expr, $env:expr; $($K:ident),* $(,)?) => {
        $( $out.extend($f::<$crate::ktypes::$K>(stringify!($K), $env)); )*
    };
}

/// every shipped k-mer type (18 aliases + Kmer31) plus the full-width VarIntKmer
#[macro_export]
macro_rules! kmers_all {
    ($f:ident, $out:expr, $env:expr) => {
        $crate::kmers_list!($f, $out, $env; Kmer2, Kmer3, Kmer4, Kmer4v, Kmer5, Kmer6, Kmer8, Kmer10,
            Kmer12, Kmer14, Kmer15, Kmer16, Kmer20, Kmer24, Kmer30, Kmer31, Kmer32, Kmer40, Kmer48, Kmer64,
            Kmer3w, Kmer6w, Kmer12w, Kmer24w, Kmer31w)
    };
}

/// every type with K >= 4 (filter_kmers buckets on the first four bases)
#[macro_export]
macro_rules! kmers_ge4 {
    ($f:ident, $out:expr, $env:expr) => {
        $crate::kmers_list!($f, $out, $env; Kmer4, Kmer4v, Kmer5, Kmer6, Kmer8, Kmer10,
            Kmer12, Kmer14, Kmer15, Kmer16, Kmer20, Kmer24, Kmer30, Kmer31, Kmer32, Kmer40, Kmer48, Kmer64)
    };
}

/// p-mer types usable as minimizers (to_u64 must work: K <= 32; permutation tables 4^p must be small)
#[macro_export]
macro_rules! kmers_small {
    ($f:ident, $out:expr, $env:expr) => {
        $crate::kmers_list!($f, $out, $env; Kmer2, Kmer3, Kmer4, Kmer4v, Kmer5, Kmer6, Kmer8)
    };
}

pub fn kseq<K: Kmer>(k: &K) -> Vec<u8> {
    (0..K::k()).map(|i| k.get(i)).collect()
}
