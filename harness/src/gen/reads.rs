//! Read-set generators (construction, never rejection).  A read set is a small "genome" over a reduced
//! alphabet plus a list of read recipes; `materialise(k)` is a pure function, so whole cases shrink and
//! replay as one value.

use proptest::collection::vec;
use proptest::prelude::*;
use serde::{Deserialize, Serialize};

use crate::model::Read;
use crate::util::{idx, rc, to_ascii, Seq};

#[derive(Debug, Clone, Serialize, Deserialize)]
pub enum Recipe {
    /// literal bases (any length, including < K and empty)
    Raw(Seq),
    /// substring of the genome (start/len as fractions), optionally reverse-complemented and with one substitution
    Sub {
        start: u16,
        len: u16,
        rc: bool,
        snp: Option<(u16, u8)>,
    },
    /// tandem repeat of a short unit: cycles of |unit| k-mers (|unit| = 1 is a homopolymer self-loop)
    Tandem { unit: Seq, extra: u16 },
    /// pre + stem + loop + rc(stem) + post : palindromic k-mers (even K) / palindromic (K+1)-mers = hairpins (odd K)
    Hairpin { pre: Seq, stem: Seq, lp: Seq, post: Seq },
    /// duplicate of an earlier read (so that thresholds >= 2 retain something)
    Dup(u16),
    /// the reverse complement of an earlier read
    DupRc(u16),
}

#[derive(Debug, Clone, Serialize, Deserialize)]
pub struct ReadSet {
    pub genome: Seq,
    pub recipes: Vec<(Recipe, u8)>,
}

impl ReadSet {
    pub fn materialise(&self, k: usize) -> Vec<Read> {
        let mut out: Vec<Read> = Vec::new();
        for (r, label) in &self.recipes {
            let seq: Seq = match r {
                Recipe::Raw(s) => s.clone(),
                Recipe::Sub { start, len, rc: flip, snp } => {
                    let g = &self.genome;
                    if g.is_empty() {
                        Vec::new()
                    } else {
                        let st = idx(*start, g.len());
                        let maxlen = g.len() - st;
                        // lengths concentrate around k-1 .. 4k
                        let want = (k.saturating_sub(1)) + idx(*len, 3 * k + 12);
                        let l = want.min(maxlen);
                        let mut s = g[st..st + l].to_vec();
                        if let Some((p, b)) = snp {
                            if !s.is_empty() {
                                let i = idx(*p, s.len());
                                s[i] = *b & 3;
                            }
                        }
                        if *flip {
                            s = rc(&s);
                        }
                        s
                    }
                }
                Recipe::Tandem { unit, extra } => {
                    if unit.is_empty() {
                        Vec::new()
                    } else {
                        let l = k + idx(*extra, 2 * unit.len() + k + 2);
                        (0..l).map(|i| unit[i % unit.len()]).collect()
                    }
                }
                Recipe::Hairpin { pre, stem, lp, post } => {
                    let mut s = pre.clone();
                    s.extend_from_slice(stem);
                    s.extend_from_slice(lp);
                    s.extend(rc(stem));
                    s.extend_from_slice(post);
                    s
                }
                Recipe::Dup(i) => {
                    if out.is_empty() {
                        Vec::new()
                    } else {
                        out[idx(*i, out.len())].seq.clone()
                    }
                }
                Recipe::DupRc(i) => {
                    if out.is_empty() {
                        Vec::new()
                    } else {
                        rc(&out[idx(*i, out.len())].seq)
                    }
                }
            };
            out.push(Read {
                seq,
                exts: 0,
                label: *label,
            });
        }
        out
    }

    pub fn render(&self, k: usize) -> serde_json::Value {
        let reads: Vec<String> = self.materialise(k).iter().map(|r| format!("{}:{}", r.label, to_ascii(&r.seq))).collect();
        serde_json::json!({"k": k, "genome": to_ascii(&self.genome), "reads": reads})
    }
}

fn recipe(k: usize, a: u8, perm: [u8; 4]) -> BoxedStrategy<Recipe> {
    let b = move |len: std::ops::RangeInclusive<usize>| super::bases(len, a, perm);
    prop_oneof![
        3 => b(0..=2 * k + 20).prop_map(Recipe::Raw),
        1 => b(k + 1..=k + 1).prop_map(Recipe::Raw),
        8 => (any::<u16>(), any::<u16>(), any::<bool>(), proptest::option::weighted(0.3, (any::<u16>(), 0u8..4)))
            .prop_map(|(start, len, rc, snp)| Recipe::Sub { start, len, rc, snp }),
        3 => (b(1..=k + 2), any::<u16>()).prop_map(|(unit, extra)| Recipe::Tandem { unit, extra }),
        1 => (b(1..=3), any::<u16>()).prop_map(|(unit, extra)| Recipe::Tandem { unit, extra }),
        3 => (b(0..=k), b(1..=k + 2), b(0..=2), b(0..=k))
            .prop_map(|(pre, stem, lp, post)| Recipe::Hairpin { pre, stem, lp, post }),
        3 => any::<u16>().prop_map(Recipe::Dup),
        2 => any::<u16>().prop_map(Recipe::DupRc),
    ]
    .boxed()
}

/// Read sets for K = `k`: 0..=max_reads reads with labels in 0..ncolours.
pub fn read_set(k: usize, max_reads: usize, ncolours: u8) -> BoxedStrategy<ReadSet> {
    super::alphabet()
        .prop_flat_map(move |(a, perm)| {
            (
                super::bases(0..=6 * k + 40, a, perm),
                vec((recipe(k, a, perm), 0u8..ncolours.max(1)), 0..=max_reads),
            )
        })
        .prop_map(|(genome, recipes)| ReadSet { genome, recipes })
        .boxed()
}
