//! Read-set generators
