//! Shared proptest strategies.  All randomness lives here (and in per-property strategies built
//! from these); derived structure is always a pure function of generated values.

use proptest::collection::vec;
use proptest::prelude::*;

use crate::util::{rc, Seq};

pub mod reads;

/// Bases over an alphabet of size `a` (1..=4), mapped through the injection `perm` (a permutation of 0..4).
pub fn bases(len: impl Into<proptest::collection::SizeRange>, a: u8, perm: [u8; 4]) -> BoxedStrategy<Seq> {
    vec(0u8..a.max(1), len)
        .prop_map(move |v| v.into_iter().map(|b| perm[b as usize]).collect())
        .boxed()
}

pub const PERMS: [[u8; 4]; 24] = [
    [0, 1, 2, 3], [0, 1, 3, 2], [0, 2, 1, 3], [0, 2, 3, 1], [0, 3, 1, 2], [0, 3, 2, 1],
    [1, 0, 2, 3], [1, 0, 3, 2], [1, 2, 0, 3], [1, 2, 3, 0], [1, 3, 0, 2], [1, 3, 2, 0],
    [2, 0, 1, 3], [2, 0, 3, 1], [2, 1, 0, 3], [2, 1, 3, 0], [2, 3, 0, 1], [2, 3, 1, 0],
    [3, 0, 1, 2], [3, 0, 2, 1], [3, 1, 0, 2], [3, 1, 2, 0], [3, 2, 0, 1], [3, 2, 1, 0],
];

/// (alphabet size, injection) with weights favouring small alphabets (dense repeats) but covering all.
pub fn alphabet() -> BoxedStrategy<(u8, [u8; 4])> {
    (
        prop_oneof![1 => Just(1u8), 4 => Just(2u8), 3 => Just(3u8), 4 => Just(4u8)],
        0usize..24,
    )
        .prop_map(|(a, p)| (a, PERMS[p]))
        .boxed()
}

/// A sequence of exactly `k` bases with boundary-biased shapes.
pub fn kmer_seq(k: usize) -> BoxedStrategy<Seq> {
    let half = (k + 1) / 2;
    prop_oneof![
        6 => vec(0u8..4, k),
        1 => (0u8..4).prop_map(move |b| vec![b; k]),
        2 => (0u8..4, 0u8..4, 0usize..k.max(1)).prop_map(move |(a, b, i)| {
            let mut v = vec![a; k];
            if k > 0 { v[i] = b; }
            v
        }),
        1 => (0u8..4, 0u8..4).prop_map(move |(a, b)| (0..k).map(|i| if i % 2 == 0 { a } else { b }).collect()),
        2 => vec(0u8..4, half).prop_map(move |h| {
            // first half followed by its reverse complement: palindromic for even k
            let mut v = h.clone();
            let r = rc(&h);
            v.extend(r.into_iter().skip(if k % 2 == 1 { 1 } else { 0 }));
            v.truncate(k);
            while v.len() < k { v.push(0); }
            v
        }),
        1 => vec(0u8..2, k).prop_map(|v| v.into_iter().map(|b| b * 3).collect()), // A/T only
    ]
    .boxed()
}

/// Sequence lengths biased to block boundaries.
pub fn boundary_len(max: usize) -> BoxedStrategy<usize> {
    let specials: Vec<usize> = [0usize, 1, 2, 3, 4, 5, 31, 32, 33, 63, 64, 65, 95, 96, 97, 127, 128, 129]
        .iter()
        .cloned()
        .filter(|x| *x <= max)
        .collect();
    prop_oneof![
        3 => 0usize..=max,
        2 => proptest::sample::select(specials),
        1 => 0usize..=max.min(12),
    ]
    .boxed()
}

/// A DNA sequence with boundary-biased length over a (possibly reduced) alphabet.
pub fn dna(max: usize) -> BoxedStrategy<Seq> {
    (boundary_len(max), alphabet())
        .prop_flat_map(|(n, (a, p))| bases(n, a, p))
        .boxed()
}
