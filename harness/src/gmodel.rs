//! String-level view of a finished graph: what `find_link` / `edges` must answer, and walk spelling.

use std::collections::{BTreeMap, BTreeSet};
use std::fmt::Debug;

use debruijn::graph::DebruijnGraph;
use debruijn::{Dir, Kmer};

use crate::model::{self, LEFT, RIGHT};
use crate::pipeline::{nodes_of, NodeV, PTable};
use crate::util::{canon, is_pal, rc, to_ascii, Seq};

pub fn d2u(d: Dir) -> u8 {
    match d {
        Dir::Left => LEFT,
        Dir::Right => RIGHT,
    }
}

pub fn u2d(s: u8) -> Dir {
    if s == LEFT {
        Dir::Left
    } else {
        Dir::Right
    }
}

pub struct GModel<P> {
    pub k: usize,
    pub stranded: bool,
    pub nodes: Vec<NodeV<P>>,
    starts: BTreeMap<Seq, Vec<usize>>,
    ends: BTreeMap<Seq, Vec<usize>>,
}

/// (target node, arrival side, flip)
pub type Link = (usize, u8, bool);

impl<P: Clone + Debug> GModel<P> {
    pub fn new(nodes: Vec<NodeV<P>>, k: usize, stranded: bool) -> GModel<P> {
        let mut starts: BTreeMap<Seq, Vec<usize>> = BTreeMap::new();
        let mut ends: BTreeMap<Seq, Vec<usize>> = BTreeMap::new();
        for (i, n) in nodes.iter().enumerate() {
            if n.seq.len() >= k {
                starts.entry(n.seq[..k].to_vec()).or_default().push(i);
                ends.entry(n.seq[n.seq.len() - k..].to_vec()).or_default().push(i);
            }
        }
        GModel {
            k,
            stranded,
            nodes,
            starts,
            ends,
        }
    }

    pub fn of_graph<K: Kmer>(g: &DebruijnGraph<K, P>) -> GModel<P> {
        GModel::new(nodes_of(g), K::k(), g.base.stranded)
    }

    pub fn first(&self, i: usize) -> &[u8] {
        &self.nodes[i].seq[..self.k]
    }
    pub fn last(&self, i: usize) -> &[u8] {
        let s = &self.nodes[i].seq;
        &s[s.len() - self.k..]
    }
    pub fn term(&self, i: usize, side: u8) -> &[u8] {
        if side == LEFT {
            self.first(i)
        } else {
            self.last(i)
        }
    }
    pub fn is_pal_single(&self, i: usize) -> bool {
        !self.stranded && self.nodes[i].seq.len() == self.k && is_pal(&self.nodes[i].seq)
    }

    /// Every answer `find_link(kmer, dir)` may legitimately give.
    pub fn acceptable(&self, kmer: &[u8], dir: u8) -> Vec<Link> {
        let mut out = Vec::new();
        let r = rc(kmer);
        if dir == RIGHT {
            // leaving through a right side: arrives at the left end of a node that starts with kmer,
            // or (unstranded) at the right end of a node that ends with rc(kmer), flipped
            if let Some(v) = self.starts.get(kmer) {
                out.extend(v.iter().map(|i| (*i, LEFT, false)));
            }
            if !self.stranded {
                if let Some(v) = self.ends.get(&r) {
                    out.extend(v.iter().map(|i| (*i, RIGHT, true)));
                }
            }
        } else {
            if let Some(v) = self.ends.get(kmer) {
                out.extend(v.iter().map(|i| (*i, RIGHT, false)));
            }
            if !self.stranded {
                if let Some(v) = self.starts.get(&r) {
                    out.extend(v.iter().map(|i| (*i, LEFT, true)));
                }
            }
        }
        out
    }

    /// Oriented sequence of a path element: (node, Left) = forward, (node, Right) = reverse complement.
    pub fn oriented(&self, node: usize, entered: u8) -> Seq {
        if entered == LEFT {
            self.nodes[node].seq.clone()
        } else {
            rc(&self.nodes[node].seq)
        }
    }

    /// Spell a walk, insisting on the K-1 overlap at every junction.
    pub fn spell(&self, path: &[(usize, u8)]) -> Result<Seq, String> {
        let mut out: Seq = Vec::new();
        for (i, (n, d)) in path.iter().enumerate() {
            let o = self.oriented(*n, *d);
            if i == 0 {
                out = o;
            } else {
                let k1 = self.k - 1;
                if out[out.len() - k1..] != o[..k1] {
                    return Err(format!(
                        "walk element {} (node {}, {}) does not overlap the previous element by K-1 bases: ...{} vs {}...",
                        i,
                        n,
                        if *d == LEFT { "forward" } else { "reverse" },
                        to_ascii(&out[out.len() - k1..]),
                        to_ascii(&o[..k1])
                    ));
                }
                out.extend_from_slice(&o[k1..]);
            }
        }
        Ok(out)
    }

    /// canonical (K+1)-mers of internal steps
    pub fn internal_w(&self) -> BTreeSet<Seq> {
        let mut out = BTreeSet::new();
        for n in &self.nodes {
            if n.seq.len() > self.k {
                for i in 0..n.seq.len() - self.k {
                    out.insert(canon(&n.seq[i..i + self.k + 1], self.stranded));
                }
            }
        }
        out
    }
}

/// Expected set of canonical (K+1)-mers of a table: every recorded extension whose target is present.
pub fn table_w<P>(t: &PTable<P>, stranded: bool) -> BTreeSet<Seq> {
    let mut out = BTreeSet::new();
    for (x, (e, _)) in t {
        for side in [LEFT, RIGHT] {
            for b in model::ext_bases(*e, side) {
                let (y, _, _) = model::neighbour(x, side, b, stranded);
                if t.contains_key(&y) {
                    out.insert(canon(&model::kp1(x, side, b), stranded));
                }
            }
        }
    }
    out
}
