//! Seeded proptest runner, job scheduling, replay, evidence and verdict plumbing.

use proptest::strategy::{BoxedStrategy, Strategy};
use proptest::test_runner::{Config, RngAlgorithm, RngSeed, TestCaseError, TestError, TestRunner};
use serde::de::DeserializeOwned;
use serde::Serialize;
use serde_json::{json, Map, Value};
use std::cell::RefCell;
use std::collections::{BTreeMap, HashSet, VecDeque};
use std::panic::{catch_unwind, AssertUnwindSafe};
use std::sync::Mutex;
use std::time::Instant;

use crate::util::{fnv64, fnv64_str};

#[derive(Copy, Clone, Debug, PartialEq, Eq)]
pub enum Tier {
    Quick,
    Thorough,
}

impl Tier {
    pub fn as_str(&self) -> &'static str {
        match self {
            Tier::Quick => "quick",
            Tier::Thorough => "thorough",
        }
    }
}

#[derive(Clone, Debug)]
pub struct Env {
    pub tier: Tier,
    pub seed: u64,
    /// multiplies every case count (VERIF_SCALE, default 1.0); for experiments only
    pub scale: f64,
}

impl Env {
    pub fn pick<T>(&self, quick: T, thorough: T) -> T {
        match self.tier {
            Tier::Quick => quick,
            Tier::Thorough => thorough,
        }
    }
    pub fn cases(&self, quick: u32, thorough: u32) -> u32 {
        let c = self.pick(quick, thorough) as f64 * self.scale;
        (c.ceil() as u32).max(1)
    }
    pub fn job_seed(&self, job: &str) -> u64 {
        fnv64_str(&format!("{}/{}", self.seed, job))
    }
}

/// What a passing case reports back.
#[derive(Debug, Default, Clone)]
pub struct Outcome {
    pub nontrivial: bool,
    pub labels: Vec<&'static str>,
}

impl Outcome {
    pub fn new(nontrivial: bool) -> Outcome {
        Outcome {
            nontrivial,
            labels: Vec::new(),
        }
    }
    pub fn label(mut self, cond: bool, l: &'static str) -> Outcome {
        if cond {
            self.labels.push(l);
        }
        self
    }
}

pub type CheckResult = Result<Outcome, String>;

#[derive(Debug, Clone)]
pub struct Failure {
    pub message: String,
    pub case: Value,
}

#[derive(Debug, Default)]
pub struct JobReport {
    pub name: String,
    pub evaluations: u64,
    pub nontrivial: HashSet<u64>,
    pub labels: BTreeMap<String, u64>,
    pub samples: Vec<Value>,
    pub failures: Vec<Failure>,
    pub exhaustive: bool,
    pub extra: Map<String, Value>,
    pub wall_s: f64,
}

impl JobReport {
    pub fn new(name: &str) -> JobReport {
        JobReport {
            name: name.to_string(),
            ..Default::default()
        }
    }
    /// Record one passing evaluation.
    pub fn pass(&mut self, out: &Outcome, case_hash: u64, sample: impl FnOnce() -> Value) {
        self.evaluations += 1;
        for l in &out.labels {
            *self.labels.entry((*l).to_string()).or_insert(0) += 1;
        }
        if out.nontrivial {
            let fresh = self.nontrivial.insert(case_hash);
            if fresh && self.samples.len() < 3 {
                self.samples.push(sample());
            }
        }
    }
    pub fn fail(&mut self, message: String, case: Value) {
        self.evaluations += 1;
        // one failure per distinct message class per job is enough
        if self.failures.len() < 3 {
            self.failures.push(Failure { message, case });
        }
    }
}

pub trait Job: Send + Sync {
    fn name(&self) -> String;
    fn run(&self, env: &Env) -> JobReport;
    /// Re-execute one saved case directly (no proptest involved).
    fn replay(&self, case: &Value) -> Result<CheckResult, String>;
}

// ------------------------------------------------------------------------------------------------
// panic capture

thread_local! {
    static LAST_PANIC: RefCell<Option<String>> = RefCell::new(None);
}

pub fn install_panic_hook() {
    std::panic::set_hook(Box::new(|info| {
        let msg = if let Some(s) = info.payload().downcast_ref::<&str>() {
            (*s).to_string()
        } else if let Some(s) = info.payload().downcast_ref::<String>() {
            s.clone()
        } else {
            "<non-string panic payload>".to_string()
        };
        let loc = info
            .location()
            .map(|l| format!("{}:{}", l.file(), l.line()))
            .unwrap_or_else(|| "?".to_string());
        let mut m = msg;
        if m.len() > 300 {
            m.truncate(300);
        }
        LAST_PANIC.with(|p| *p.borrow_mut() = Some(format!("panic at {}: {}", loc, m)));
    }));
}

/// Run `f`, turning a panic of the code under test (or of the oracle) into an `Err`.
pub fn guarded<T>(f: impl FnOnce() -> Result<T, String>) -> Result<T, String> {
    match catch_unwind(AssertUnwindSafe(f)) {
        Ok(r) => r,
        Err(_) => {
            let m = LAST_PANIC
                .with(|p| p.borrow_mut().take())
                .unwrap_or_else(|| "panic (no message captured)".to_string());
            Err(m)
        }
    }
}

/// Like `guarded` but for code that returns a plain value: Err(message) if it panics.
pub fn no_panic<T>(what: &str, f: impl FnOnce() -> T) -> Result<T, String> {
    match catch_unwind(AssertUnwindSafe(f)) {
        Ok(r) => Ok(r),
        Err(_) => {
            let m = LAST_PANIC
                .with(|p| p.borrow_mut().take())
                .unwrap_or_else(|| "panic (no message captured)".to_string());
            Err(format!("{}: {}", what, m))
        }
    }
}

// ------------------------------------------------------------------------------------------------
// proptest-driven job

pub struct PropJob<C> {
    pub name: String,
    pub quick: u32,
    pub thorough: u32,
    pub strat: Box<dyn Fn(&Env) -> BoxedStrategy<C> + Send + Sync>,
    pub check: Box<dyn Fn(&C) -> CheckResult + Send + Sync>,
    /// human-readable rendering for samples / replay files (in addition to the raw case)
    pub render: Option<Box<dyn Fn(&C) -> Value + Send + Sync>>,
    pub max_shrink_iters: u32,
}

impl<C> PropJob<C>
where
    C: std::fmt::Debug + Clone + Serialize + DeserializeOwned + 'static,
{
    pub fn new(
        name: impl Into<String>,
        quick: u32,
        thorough: u32,
        strat: impl Fn(&Env) -> BoxedStrategy<C> + Send + Sync + 'static,
        check: impl Fn(&C) -> CheckResult + Send + Sync + 'static,
    ) -> PropJob<C> {
        PropJob {
            name: name.into(),
            quick,
            thorough,
            strat: Box::new(strat),
            check: Box::new(check),
            render: None,
            max_shrink_iters: 4000,
        }
    }
    pub fn with_render(mut self, r: impl Fn(&C) -> Value + Send + Sync + 'static) -> Self {
        self.render = Some(Box::new(r));
        self
    }
    pub fn boxed(self) -> Box<dyn Job> {
        Box::new(self)
    }
    fn case_json(&self, c: &C) -> Value {
        let raw = serde_json::to_value(c).unwrap_or(Value::Null);
        match &self.render {
            Some(r) => json!({"case": raw, "rendered": r(c)}),
            None => json!({ "case": raw }),
        }
    }
}

impl<C> Job for PropJob<C>
where
    C: std::fmt::Debug + Clone + Serialize + DeserializeOwned + 'static,
{
    fn name(&self) -> String {
        self.name.clone()
    }

    fn run(&self, env: &Env) -> JobReport {
        let t0 = Instant::now();
        let mut report = JobReport::new(&self.name);
        let cases = env.cases(self.quick, self.thorough);
        let seed = env.job_seed(&self.name);
        let mut seed_bytes = [0u8; 32];
        for i in 0..4 {
            let w = fnv64(&[&seed.to_le_bytes()[..], &[i as u8]].concat());
            seed_bytes[i * 8..i * 8 + 8].copy_from_slice(&w.to_le_bytes());
        }
        let config = Config {
            cases,
            failure_persistence: None,
            max_shrink_iters: self.max_shrink_iters,
            max_global_rejects: 0,
            max_local_rejects: 65536,
            rng_algorithm: RngAlgorithm::ChaCha,
            rng_seed: RngSeed::Fixed(seed),
            verbose: 0,
            ..Config::default()
        };
        let _ = seed_bytes;
        let mut runner = TestRunner::new(config);
        let strat = (self.strat)(env);
        let failed = RefCell::new(false);
        let rep = RefCell::new(&mut report);
        let result = runner.run(&strat, |case: C| {
            let r = guarded(|| (self.check)(&case));
            match r {
                Ok(out) => {
                    if !*failed.borrow() {
                        let s = serde_json::to_string(&case).unwrap_or_default();
                        rep.borrow_mut()
                            .pass(&out, fnv64_str(&s), || self.case_json(&case));
                    }
                    Ok(())
                }
                Err(msg) => {
                    if !*failed.borrow() {
                        rep.borrow_mut().evaluations += 1;
                    }
                    *failed.borrow_mut() = true;
                    Err(TestCaseError::fail(msg))
                }
            }
        });
        drop(rep);
        match result {
            Ok(()) => {}
            Err(TestError::Fail(_, minimal)) => {
                // message of the *minimal* case, deterministically recomputed
                let msg = match guarded(|| (self.check)(&minimal)) {
                    Err(m) => m,
                    Ok(_) => "failure did not reproduce on the shrunk case (non-deterministic check?)"
                        .to_string(),
                };
                let cj = self.case_json(&minimal);
                report.failures.push(Failure {
                    message: msg,
                    case: cj,
                });
            }
            Err(TestError::Abort(reason)) => {
                report.failures.push(Failure {
                    message: format!("generator aborted (harness problem, not a violation): {}", reason),
                    case: Value::Null,
                });
                report
                    .extra
                    .insert("aborted".into(), Value::String(reason.to_string()));
            }
        }
        report.wall_s = t0.elapsed().as_secs_f64();
        report
    }

    fn replay(&self, case: &Value) -> Result<CheckResult, String> {
        let raw = case.get("case").unwrap_or(case);
        let c: C = serde_json::from_value(raw.clone())
            .map_err(|e| format!("cannot decode case for job {}: {}", self.name, e))?;
        Ok(guarded(|| (self.check)(&c)))
    }
}

// ------------------------------------------------------------------------------------------------
// enumeration job (exhaustive sub-domains)

pub struct EnumJob {
    pub name: String,
    pub run: Box<dyn Fn(&Env, &mut JobReport) + Send + Sync>,
    pub replay: Box<dyn Fn(&Value) -> Result<CheckResult, String> + Send + Sync>,
}

impl EnumJob {
    pub fn boxed(self) -> Box<dyn Job> {
        Box::new(self)
    }
}

impl Job for EnumJob {
    fn name(&self) -> String {
        self.name.clone()
    }
    fn run(&self, env: &Env) -> JobReport {
        let t0 = Instant::now();
        let mut report = JobReport::new(&self.name);
        (self.run)(env, &mut report);
        report.wall_s = t0.elapsed().as_secs_f64();
        report
    }
    fn replay(&self, case: &Value) -> Result<CheckResult, String> {
        (self.replay)(case)
    }
}

// ------------------------------------------------------------------------------------------------
// scheduling

pub fn run_jobs(jobs: &[Box<dyn Job>], env: &Env, threads: usize) -> Vec<JobReport> {
    let queue: Mutex<VecDeque<usize>> = Mutex::new((0..jobs.len()).collect());
    let reports: Mutex<Vec<(usize, JobReport)>> = Mutex::new(Vec::new());
    std::thread::scope(|s| {
        for _ in 0..threads.max(1).min(jobs.len().max(1)) {
            s.spawn(|| loop {
                let next = queue.lock().unwrap().pop_front();
                let i = match next {
                    Some(i) => i,
                    None => break,
                };
                let r = jobs[i].run(env);
                reports.lock().unwrap().push((i, r));
            });
        }
    });
    let mut v = reports.into_inner().unwrap();
    v.sort_by_key(|x| x.0);
    v.into_iter().map(|x| x.1).collect()
}
