//! Small helpers shared by models, generators and checks.  Nothing here calls the code under test.

pub type Seq = Vec<u8>;

/// FNV-1a, used wherever a *stable* hash is needed (job seeds, distinct-case counting).
pub fn fnv64(bytes: &[u8]) -> u64 {
    let mut h: u64 = 0xcbf29ce484222325;
    for b in bytes {
        h ^= *b as u64;
        h = h.wrapping_mul(0x100000001b3);
    }
    h
}

pub fn fnv64_str(s: &str) -> u64 {
    fnv64(s.as_bytes())
}

/// splitmix64 step: pure function used to derive structure (permutations…) from a generated u64.
pub fn splitmix(state: &mut u64) -> u64 {
    *state = state.wrapping_add(0x9E3779B97F4A7C15);
    let mut z = *state;
    z = (z ^ (z >> 30)).wrapping_mul(0xBF58476D1CE4E5B9);
    z = (z ^ (z >> 27)).wrapping_mul(0x94D049BB133111EB);
    z ^ (z >> 31)
}

/// Reverse complement of a 0..3 encoded sequence.
pub fn rc(s: &[u8]) -> Seq {
    s.iter().rev().map(|b| 3 - *b).collect()
}

/// Canonical representative: min(s, rc(s)) when unstranded, s itself when stranded.
pub fn canon(s: &[u8], stranded: bool) -> Seq {
    if stranded {
        s.to_vec()
    } else {
        let r = rc(s);
        if r.as_slice() < s {
            r
        } else {
            s.to_vec()
        }
    }
}

/// (canonical representative, was it flipped).  A palindrome (s == rc(s)) reports flipped = false here;
/// callers that care about the implementation's convention for palindromes must handle them explicitly.
pub fn canon_flip(s: &[u8], stranded: bool) -> (Seq, bool) {
    if stranded {
        return (s.to_vec(), false);
    }
    let r = rc(s);
    if r.as_slice() < s {
        (r, true)
    } else {
        (s.to_vec(), false)
    }
}

pub fn is_pal(s: &[u8]) -> bool {
    rc(s) == s
}

pub fn to_ascii(s: &[u8]) -> String {
    s.iter()
        .map(|b| match b {
            0 => 'A',
            1 => 'C',
            2 => 'G',
            3 => 'T',
            _ => '?',
        })
        .collect()
}

pub fn from_ascii(s: &str) -> Seq {
    s.bytes()
        .map(|c| match c {
            b'A' | b'a' => 0,
            b'C' | b'c' => 1,
            b'G' | b'g' => 2,
            b'T' | b't' => 3,
            _ => 0,
        })
        .collect()
}

/// Monotone index mapping (shrinks towards 0): frac in 0..=65535 -> 0..n  (n > 0).
pub fn idx(frac: u16, n: usize) -> usize {
    debug_assert!(n > 0);
    ((frac as usize) * n) >> 16
}

/// Fisher-Yates permutation of 0..n as a pure function of `seed`.
pub fn permutation(n: usize, seed: u64) -> Vec<usize> {
    let mut v: Vec<usize> = (0..n).collect();
    let mut st = seed;
    for i in (1..n).rev() {
        let j = (splitmix(&mut st) % (i as u64 + 1)) as usize;
        v.swap(i, j);
    }
    v
}

/// Pack up to 32 bases into the top bits of a u64, filling the unused low bits from `garbage`.
pub fn pack_top(bases: &[u8], garbage: u64) -> u64 {
    assert!(bases.len() <= 32);
    let mut v: u64 = 0;
    for (i, b) in bases.iter().enumerate() {
        v |= (*b as u64) << (62 - 2 * i);
    }
    let used = 2 * bases.len();
    if used < 64 {
        v |= garbage & ((1u64 << (64 - used)) - 1);
    }
    v
}
