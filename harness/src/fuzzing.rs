//! Byte-level front end for the libFuzzer targets (/verif/fuzz): bytes are decoded with
//! `arbitrary::Unstructured` into the SAME case structs the proptest jobs use and fed to the SAME
//! check functions, so the semantic oracle runs inside the fuzz target.  A failing case is written as
//! a JSON replay file (same format as the proptest replays) before the process aborts.

use arbitrary::{Result as AResult, Unstructured};
use serde::Serialize;
use serde_json::json;
use std::sync::Once;

use crate::gen::reads::{ReadSet, Recipe};
use crate::pipeline::Entry3;
use crate::props::gcase::GCase;
use crate::props::{c07, c11, c13, c14, c15, c16, c17, c18};
use crate::runner::{guarded, install_panic_hook, CheckResult};
use crate::util::Seq;

static INIT: Once = Once::new();

/// Run one decoded case; on failure write the replay file and abort (libFuzzer then saves the input).
pub fn run_case<C: Serialize>(property: &str, job: &str, case: &C, check: impl FnOnce(&C) -> CheckResult) {
    INIT.call_once(install_panic_hook);
    if let Ok(only) = std::env::var("VERIF_FUZZ_ONLY") {
        if only != property {
            return;
        }
    }
    let r = guarded(|| check(case));
    if let Err(msg) = r {
        let dir = std::env::var("VERIF_FUZZ_REPLAY_DIR").unwrap_or_else(|_| "/verif/replays/fuzz".to_string());
        let _ = std::fs::create_dir_all(&dir);
        let cj = json!({"case": serde_json::to_value(case).unwrap_or(serde_json::Value::Null)});
        let body = json!({"property": property, "job": job, "message": msg, "source": "libFuzzer", "case": cj});
        let text = serde_json::to_string_pretty(&body).unwrap();
        let h = crate::util::fnv64_str(&text);
        let path = format!("{}/{}.{:016x}.json", dir, property, h);
        let _ = std::fs::write(&path, text + "\n");
        eprintln!("FUZZ-VIOLATION property={} replay={} : {}", property, path, msg);
        std::process::abort();
    }
}

fn seq(u: &mut Unstructured, max: usize) -> AResult<Seq> {
    let n = u.int_in_range(0..=max)?;
    let mut v = Vec::with_capacity(n);
    for _ in 0..n {
        v.push(u.arbitrary::<u8>()? & 3);
    }
    Ok(v)
}

fn seq_exact(u: &mut Unstructured, n: usize) -> AResult<Seq> {
    let mut v = Vec::with_capacity(n);
    for _ in 0..n {
        v.push(u.arbitrary::<u8>()? & 3);
    }
    Ok(v)
}

pub fn c14_case(u: &mut Unstructured) -> AResult<c14::Case> {
    let nops = u.int_in_range(0..=16)?;
    let mut ops = Vec::new();
    for _ in 0..nops {
        let op = match u.int_in_range(0..=13)? {
            0 => c14::Op::New,
            1 => c14::Op::WithCapacity(u.int_in_range(0..=130)?),
            2 => c14::Op::Blank(u.int_in_range(0..=130)?),
            3 => c14::Op::VmerNew(u.int_in_range(0..=130)?),
            4 => c14::Op::FromBytes(seq(u, 130)?),
            5 => c14::Op::FromStr(seq(u, 130)?),
            6 => c14::Op::FromAcgt(seq(u, 130)?),
            7 => c14::Op::FromAcgtRaw({
                let n = u.int_in_range(0..=130)?;
                u.bytes(n)?.to_vec()
            }),
            8 => c14::Op::Push(u.arbitrary::<u8>()? & 3),
            9 => c14::Op::Extend(seq(u, 130)?),
            10 => c14::Op::PushBytes(
                {
                    let n = u.int_in_range(0..=20)?;
                    u.bytes(n)?.to_vec()
                },
                u.arbitrary()?,
            ),
            11 => c14::Op::Set(u.arbitrary()?, u.arbitrary::<u8>()? & 3),
            12 => c14::Op::FromHashn(
                {
                    let n = u.int_in_range(0..=130)?;
                    u.bytes(n)?.to_vec()
                },
                {
                    let n = u.int_in_range(0..=5)?;
                    u.bytes(n)?.to_vec()
                },
            ),
            _ => c14::Op::Clear,
        };
        ops.push(op);
    }
    let nset = u.int_in_range(0..=3)?;
    let mut set = Vec::new();
    for _ in 0..nset {
        set.push(seq(u, 70)?);
    }
    Ok(c14::Case {
        ops,
        other: seq(u, 100)?,
        edit: (u.arbitrary()?, u.arbitrary::<u8>()? & 3),
        set,
        set_slice: (u.arbitrary()?, u.arbitrary()?, u.arbitrary()?),
    })
}

pub fn c15_vcase(u: &mut Unstructured) -> AResult<c15::VCase> {
    let origin = u.int_in_range(0..=4)?;
    let first = (u.arbitrary()?, u.arbitrary()?);
    let nsteps = u.int_in_range(0..=7)?;
    let mut steps = Vec::new();
    for _ in 0..nsteps {
        steps.push(match u.int_in_range(0..=3)? {
            0 => c15::Step::Slice(u.arbitrary()?, u.arbitrary()?),
            1 => c15::Step::Rc,
            2 => c15::Step::Head(u.arbitrary()?),
            _ => c15::Step::Tail(u.arbitrary()?),
        });
    }
    let set_before = seq(u, 70)?;
    let backing = seq(u, 400)?;
    let build = if u.arbitrary()? { u.arbitrary()? } else { 0 };
    Ok(c15::VCase {
        backing,
        origin,
        first,
        steps,
        set_before,
        build,
    })
}

pub fn c15_dcase(u: &mut Unstructured) -> AResult<c15::DCase> {
    let len = match u.int_in_range(0..=3)? {
        0 => u.int_in_range(0..=200)?,
        1 => u.int_in_range(1000..=1100)?,
        2 => 1024 * u.int_in_range(1..=4)? + u.int_in_range(0..=2)? - 1,
        _ => u.int_in_range(0..=4500)?,
    };
    let nd = u.int_in_range(0..=10)?;
    let mut diffs = Vec::new();
    for _ in 0..nd {
        diffs.push((u.int_in_range(0..=3)?, u.arbitrary()?));
    }
    Ok(c15::DCase {
        len,
        seed: u.arbitrary()?,
        off1: u.int_in_range(0..=69)?,
        off2: u.int_in_range(0..=69)?,
        rc1: u.arbitrary()?,
        rc2: u.arbitrary()?,
        diffs,
    })
}

pub fn c11_case(u: &mut Unstructured, k: usize) -> AResult<c11::Case> {
    let start = seq_exact(u, k)?;
    let mut hs: Vec<Vec<c11::Op>> = Vec::new();
    for _ in 0..2 {
        let n = u.int_in_range(0..=30)?;
        let mut ops = Vec::new();
        for _ in 0..n {
            ops.push(match u.int_in_range(0..=10)? {
                0 => c11::Op::ExtL(u.arbitrary::<u8>()? & 3),
                1 => c11::Op::ExtR(u.arbitrary::<u8>()? & 3),
                2 => c11::Op::Rc,
                3 => c11::Op::Set(u.arbitrary()?, u.arbitrary::<u8>()? & 3),
                4 => c11::Op::SetSlice(u.arbitrary()?, u.arbitrary()?, seq_exact(u, 32)?, u.arbitrary()?),
                5 => c11::Op::MinRc,
                6 => c11::Op::MinRcFlip,
                7 => c11::Op::FromBytes(seq_exact(u, k)?),
                8 => c11::Op::FromAscii(seq_exact(u, k)?),
                9 => c11::Op::FromRank(seq_exact(u, k)?),
                _ => c11::Op::Extract(u.int_in_range(0..=3)?, u.int_in_range(0..=69)?),
            });
        }
        hs.push(ops);
    }
    let h2 = hs.pop().unwrap();
    let h1 = hs.pop().unwrap();
    Ok(c11::Case { start, h1, h2 })
}

pub fn c18_case(u: &mut Unstructured) -> AResult<c18::Case> {
    let nn = u.int_in_range(2..=5)?;
    let mut lens = Vec::new();
    for _ in 0..nn {
        lens.push(u.int_in_range(0..=40)?);
    }
    let nc = u.int_in_range(1..=14)?;
    let mut calls = Vec::new();
    for _ in 0..nc {
        calls.push(match u.int_in_range(0..=5)? {
            0 => c18::Call::Next,
            1 => c18::Call::Small(u.int_in_range(0..=4)?),
            2 => c18::Call::Rel(u.int_in_range(-3..=3)?),
            3 => c18::Call::Frac(u.arbitrary()?),
            4 => c18::Call::Huge(u.int_in_range(1u64 << 20..=1u64 << 62)?),
            _ => c18::Call::Max,
        });
    }
    Ok(c18::Case {
        lens,
        seed: u.arbitrary()?,
        node: u.arbitrary()?,
        calls,
    })
}

pub fn c16_case(u: &mut Unstructured) -> AResult<c16::Case> {
    let nname = u.int_in_range(0..=8)?;
    let name = u.bytes(nname)?.to_vec();
    let ne = u.int_in_range(1..=3)?;
    let mut edits = Vec::new();
    for _ in 0..ne {
        edits.push((u.arbitrary()?, u.arbitrary()?));
    }
    let n = u.len();
    let bytes = u.bytes(n)?.to_vec();
    Ok(c16::Case { bytes, name, edits })
}

/// Read sets for the pipeline target: literal reads (2-bit) plus duplicates / reverse complements / tandem repeats.
pub fn gcase(u: &mut Unstructured, k: usize) -> AResult<GCase> {
    let stranded = u.arbitrary()?;
    let min_count = *u.choose(&[1u8, 1, 1, 2, 2, 3, 255])?;
    let entry = *u.choose(&[Entry3::Hash, Entry3::SortedSlice, Entry3::NoExts, Entry3::SortedSliceRaw])?;
    let shards = *u.choose(&[0u8, 0, 0, 2, 3])?;
    let shard_pick = u.arbitrary()?;
    let aux = u.arbitrary()?;
    let alpha = u.int_in_range(1..=4)? as u8;
    let nreads = u.int_in_range(0..=8)?;
    let mut recipes = Vec::new();
    let genome: Seq = seq(u, 6 * k + 40)?.into_iter().map(|b| b % alpha).collect();
    for _ in 0..nreads {
        let label = u.int_in_range(0..=2)?;
        let r = match u.int_in_range(0..=6)? {
            0 | 1 => Recipe::Raw(seq(u, 3 * k + 20)?.into_iter().map(|b| b % alpha).collect()),
            2 => Recipe::Sub {
                start: u.arbitrary()?,
                len: u.arbitrary()?,
                rc: u.arbitrary()?,
                snp: if u.arbitrary()? { Some((u.arbitrary()?, u.arbitrary::<u8>()? & 3)) } else { None },
            },
            3 => Recipe::Tandem {
                unit: {
                    let n = u.int_in_range(1..=k + 2)?;
                    seq_exact(u, n)?.into_iter().map(|b| b % alpha).collect()
                },
                extra: u.arbitrary()?,
            },
            4 => Recipe::Hairpin {
                pre: seq(u, k)?,
                stem: {
                    let n = u.int_in_range(1..=k + 2)?;
                    seq_exact(u, n)?.into_iter().map(|b| b % alpha).collect()
                },
                lp: seq(u, 2)?,
                post: seq(u, k)?,
            },
            5 => Recipe::Dup(u.arbitrary()?),
            _ => Recipe::DupRc(u.arbitrary()?),
        };
        recipes.push((r, label));
    }
    Ok(GCase {
        rs: ReadSet { genome, recipes },
        stranded,
        min_count,
        entry,
        shards,
        shard_pick,
        aux,
    })
}

pub fn c17_case(u: &mut Unstructured, words: usize) -> AResult<c17::Case> {
    let max_len = (words * 64 - 8) / 2;
    let n = match u.int_in_range(0..=3)? {
        0 => max_len,
        1 => max_len - u.int_in_range(0..=3)?,
        2 => (32 * u.int_in_range(0..=words - 1)? + u.int_in_range(0..=2)?).min(max_len),
        _ => u.int_in_range(0..=max_len)?,
    };
    let nops = u.int_in_range(0..=12)?;
    let mut ops = Vec::new();
    for _ in 0..nops {
        ops.push(match u.int_in_range(0..=5)? {
            0 => c17::Op::Set(u.arbitrary()?, u.arbitrary::<u8>()? & 3),
            1 => c17::Op::Rc,
            _ => c17::Op::SetSlice(u.arbitrary()?, u.arbitrary()?, seq_exact(u, 32)?),
        });
    }
    Ok(c17::Case { seq: seq_exact(u, n)?, ops })
}

pub fn c13_case(u: &mut Unstructured, k: usize) -> AResult<c13::Case> {
    let lflank = u.int_in_range(0..=70)?;
    let rflank = u.int_in_range(0..=70)?;
    let bexts = u.arbitrary()?;
    let sub = (u.arbitrary()?, u.arbitrary()?);
    let n = match u.int_in_range(0..=4)? {
        0 => (k + u.int_in_range(0..=2)?).saturating_sub(1),
        1 => 32usize * u.int_in_range(1usize..=4)? + u.int_in_range(0usize..=2)? - 1,
        2 => u.int_in_range(0..=k + 40)?,
        _ => u.int_in_range(0..=3 * k + 200)?,
    };
    Ok(c13::Case {
        seq: seq_exact(u, n)?,
        lflank,
        rflank,
        bexts,
        sub,
    })
}

pub fn c07_case(u: &mut Unstructured, p: usize) -> AResult<c07::Case> {
    let k_extra: u16 = match u.int_in_range(0..=5)? {
        0 => 0,
        1 => 1,
        2 => u.int_in_range(41..=299)?,
        _ => u.int_in_range(0..=40)?,
    };
    let score = match u.int_in_range(0..=7)? {
        0 => c07::Score::Rank,
        1 => c07::Score::Perm(u.arbitrary()?),
        2 => c07::Score::PermRc(u.arbitrary()?),
        3 => c07::Score::Const(*u.choose(&[0u16, 1, 7, 65535])?),
        4 => c07::Score::Mod(u.int_in_range(1..=5)?),
        5 => c07::Score::AtCount,
        6 => c07::Score::Const(u.arbitrary()?),
        _ => c07::Score::Hash64(u.arbitrary()?),
    };
    let container = u.int_in_range(0..=3)?;
    let alpha = u.int_in_range(1..=4)? as u8;
    let k = p + k_extra as usize;
    let extra = u.int_in_range(0..=400)?;
    let seq: Seq = seq_exact(u, k + extra)?.into_iter().map(|b| b % alpha).collect();
    Ok(c07::Case {
        seq,
        k_extra,
        score,
        container,
    })
}
