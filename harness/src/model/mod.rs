//! Reference models (plain Vec<u8>; nothing here calls the code under test).
