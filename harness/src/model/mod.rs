//! Reference models (plain Vec<u8>; nothing here calls the code under test).
//!
//! Extension sets use the crate's documented public byte encoding: low nibble = left, high nibble =
//! right, bit i of a nibble = base i (A,C,G,T).

use std::collections::{BTreeMap, BTreeSet};

use crate::util::{canon, is_pal, rc, Seq};

pub const LEFT: u8 = 0;
pub const RIGHT: u8 = 1;

#[derive(Clone, Debug, PartialEq, Eq)]
pub struct Read {
    pub seq: Seq,
    /// boundary extensions supplied by the caller for the two read ends (Exts byte)
    pub exts: u8,
    pub label: u8,
}

pub fn nib_complement(n: u8) -> u8 {
    // base b -> 3-b : bit i -> bit 3-i
    let mut r = 0;
    for i in 0..4 {
        if n & (1 << i) != 0 {
            r |= 1 << (3 - i);
        }
    }
    r
}

/// Reverse complement of an extension byte: sides swapped, bases complemented.
pub fn ext_rc(e: u8) -> u8 {
    let l = e & 0xf;
    let r = e >> 4;
    (nib_complement(l) << 4) | nib_complement(r)
}

pub fn ext_side(e: u8, side: u8) -> u8 {
    if side == LEFT {
        e & 0xf
    } else {
        e >> 4
    }
}

pub fn ext_bases(e: u8, side: u8) -> Vec<u8> {
    let n = ext_side(e, side);
    (0..4u8).filter(|b| n & (1 << b) != 0).collect()
}

pub fn ext_count(e: u8, side: u8) -> u32 {
    ext_side(e, side).count_ones()
}

pub fn ext_with(side: u8, base: u8) -> u8 {
    if side == LEFT {
        1 << base
    } else {
        1 << (base + 4)
    }
}

/// For a palindromic k-mer the two sides are indistinguishable: compare up to E ∪ rc(E).
pub fn ext_closure(e: u8) -> u8 {
    e | ext_rc(e)
}

#[derive(Clone, Debug, PartialEq, Eq)]
pub struct Obs {
    pub read: usize,
    pub off: usize,
    pub label: u8,
    /// extension byte contributed by this observation (already reverse-complemented if the window was flipped)
    pub exts: u8,
    pub flipped: bool,
}

#[derive(Clone, Debug, Default, PartialEq, Eq)]
pub struct Entry {
    pub obs: Vec<Obs>,
    pub exts: u8,
}

impl Entry {
    pub fn count(&self) -> usize {
        self.obs.len()
    }
    pub fn labels(&self) -> Vec<u8> {
        let s: BTreeSet<u8> = self.obs.iter().map(|o| o.label).collect();
        s.into_iter().collect()
    }
}

pub type Table = BTreeMap<Seq, Entry>;

/// M-table: every window of every read, with its flanking bases (or the caller's boundary nibble at a read end).
/// Unstranded: an observation whose reverse complement is <= the window is recorded on the reverse complement
/// (so palindromes are recorded "flipped", like the implementation; compare palindromes up to `ext_closure`).
pub fn build_table(reads: &[Read], k: usize, stranded: bool) -> Table {
    let mut t: Table = BTreeMap::new();
    for (ri, r) in reads.iter().enumerate() {
        let n = r.seq.len();
        if n < k {
            continue;
        }
        for off in 0..=n - k {
            let w = &r.seq[off..off + k];
            let left = if off > 0 { 1u8 << r.seq[off - 1] } else { r.exts & 0xf };
            let right = if off + k < n { 1u8 << r.seq[off + k] } else { r.exts >> 4 };
            let e = left | (right << 4);
            let (key, e, flipped) = if stranded {
                (w.to_vec(), e, false)
            } else {
                let rw = rc(w);
                if w < rw.as_slice() {
                    (w.to_vec(), e, false)
                } else {
                    (rw, ext_rc(e), true)
                }
            };
            let ent = t.entry(key).or_default();
            ent.exts |= e;
            ent.obs.push(Obs {
                read: ri,
                off,
                label: r.label,
                exts: e,
                flipped,
            });
        }
    }
    t
}

pub fn extend(key: &[u8], side: u8, base: u8) -> Seq {
    let k = key.len();
    if side == RIGHT {
        let mut v = key[1..].to_vec();
        v.push(base);
        v
    } else {
        let mut v = vec![base];
        v.extend_from_slice(&key[..k - 1]);
        v
    }
}

/// The (K+1)-mer denoted by extension (key, side, base), as spelled from `key`'s orientation.
pub fn kp1(key: &[u8], side: u8, base: u8) -> Seq {
    if side == RIGHT {
        let mut v = key.to_vec();
        v.push(base);
        v
    } else {
        let mut v = vec![base];
        v.extend_from_slice(key);
        v
    }
}

/// Other endpoint of extension (key, side, base): (canonical neighbour, side of the neighbour that faces back,
/// whether the neighbour is a palindrome (its facing side is then ambiguous)).
pub fn neighbour(key: &[u8], side: u8, base: u8, stranded: bool) -> (Seq, u8, bool) {
    let w = extend(key, side, base);
    if stranded {
        return (w, 1 - side, false);
    }
    let r = rc(&w);
    if w == r {
        (w, 1 - side, true)
    } else if w < r {
        (w, 1 - side, false)
    } else {
        (r, side, false)
    }
}

/// Remove every extension whose target k-mer is not a key of the table (what pruning must produce).
pub fn prune_exts<D: Clone>(t: &BTreeMap<Seq, (u8, D)>, stranded: bool) -> BTreeMap<Seq, (u8, D)> {
    let mut out = BTreeMap::new();
    for (key, (e, d)) in t {
        let mut ne = 0u8;
        for side in [LEFT, RIGHT] {
            for b in ext_bases(*e, side) {
                let (nb, _, _) = neighbour(key, side, b, stranded);
                if t.contains_key(&nb) {
                    ne |= ext_with(side, b);
                }
            }
        }
        out.insert(key.clone(), (ne, d.clone()));
    }
    out
}

/// Union-find over indices.
pub struct Uf {
    p: Vec<usize>,
}

impl Uf {
    pub fn new(n: usize) -> Uf {
        Uf { p: (0..n).collect() }
    }
    pub fn find(&mut self, x: usize) -> usize {
        let mut r = x;
        while self.p[r] != r {
            r = self.p[r];
        }
        let mut c = x;
        while self.p[c] != r {
            let n = self.p[c];
            self.p[c] = r;
            c = n;
        }
        r
    }
    pub fn union(&mut self, a: usize, b: usize) {
        let (ra, rb) = (self.find(a), self.find(b));
        if ra != rb {
            self.p[ra.max(rb)] = ra.min(rb);
        }
    }
}

#[derive(Debug, Default, Clone)]
pub struct PartitionInfo {
    /// components as sorted lists of canonical k-mers, sorted
    pub parts: Vec<Vec<Seq>>,
    pub compressible_links: usize,
    /// links present in the table that are not compressible (branch, palindrome, self/hairpin link, predicate boundary)
    pub blocked_links: usize,
    pub has_palindrome: bool,
    pub has_self_link: bool,
    pub has_branch: bool,
    pub has_join_boundary: bool,
}

/// M-graph: the expected node partition = connected components of *compressible* links.
/// A link (x, side, b) -> (y, t) is compressible iff x != y, neither is a palindrome (unstranded), it is the
/// sole extension on side `side` of x and on the facing side `t` of y, and `join(dx, dy)`.
/// Precondition: every extension of the table references a present k-mer, and the table is consistent
/// (y records the link back); both hold for pruned tables computed from reads.
pub fn expected_partition<D>(
    t: &BTreeMap<Seq, (u8, D)>,
    stranded: bool,
    join: &dyn Fn(&D, &D) -> bool,
) -> Result<PartitionInfo, String> {
    let keys: Vec<&Seq> = t.keys().collect();
    let index: BTreeMap<&Seq, usize> = keys.iter().enumerate().map(|(i, k)| (*k, i)).collect();
    let mut uf = Uf::new(keys.len());
    let mut info = PartitionInfo::default();
    for (i, x) in keys.iter().enumerate() {
        let (ex, dx) = &t[*x];
        let xpal = !stranded && is_pal(x);
        if xpal {
            info.has_palindrome = true;
        }
        for side in [LEFT, RIGHT] {
            let bases = ext_bases(*ex, side);
            if bases.len() > 1 {
                info.has_branch = true;
            }
            for b in &bases {
                let (y, tside, ypal) = neighbour(x, side, *b, stranded);
                let j = match index.get(&y) {
                    Some(j) => *j,
                    None => return Err(format!("model precondition: extension to absent k-mer in pruned table")),
                };
                let (ey, dy) = &t[&y];
                let mut ok = true;
                if j == i {
                    info.has_self_link = true;
                    ok = false;
                }
                if xpal || ypal {
                    ok = false;
                }
                if bases.len() != 1 {
                    ok = false;
                }
                if !ypal && ext_count(*ey, tside) != 1 {
                    ok = false;
                }
                if ok && !join(dx, dy) {
                    info.has_join_boundary = true;
                    ok = false;
                }
                if ok {
                    uf.union(i, j);
                    info.compressible_links += 1;
                } else {
                    info.blocked_links += 1;
                }
            }
        }
    }
    let mut comp: BTreeMap<usize, Vec<Seq>> = BTreeMap::new();
    for (i, x) in keys.iter().enumerate() {
        comp.entry(uf.find(i)).or_default().push((*x).clone());
    }
    let mut parts: Vec<Vec<Seq>> = comp.into_values().collect();
    for p in parts.iter_mut() {
        p.sort();
    }
    parts.sort();
    info.parts = parts;
    Ok(info)
}

/// Check that a table is *consistent*: whenever x has an extension to a present k-mer y, y has the
/// extension back to x on the facing side (palindromic endpoints: on either side).
pub fn table_consistent<D>(t: &BTreeMap<Seq, (u8, D)>, stranded: bool) -> bool {
    for (x, (ex, _)) in t {
        for side in [LEFT, RIGHT] {
            for b in ext_bases(*ex, side) {
                let (y, tside, ypal) = neighbour(x, side, b, stranded);
                if let Some((ey, _)) = t.get(&y) {
                    // the base that leads back from y to x
                    let w = kp1(x, side, b);
                    let back_ok = |ts: u8| -> bool {
                        ext_bases(*ey, ts).iter().any(|bb| {
                            let w2 = kp1(&y, ts, *bb);
                            w2 == w || (!stranded && rc(&w2) == w)
                        })
                    };
                    let ok = if ypal || (!stranded && is_pal(x)) {
                        back_ok(LEFT) || back_ok(RIGHT)
                    } else {
                        back_ok(tside)
                    };
                    if !ok {
                        return false;
                    }
                }
            }
        }
    }
    true
}

/// Canonical (K+1)-mers between retained k-mers observed in the reads (for W_total comparisons).
pub fn read_kp1s(reads: &[Read], k: usize, stranded: bool, retained: &dyn Fn(&Seq) -> bool) -> BTreeSet<Seq> {
    let mut out = BTreeSet::new();
    for r in reads {
        let n = r.seq.len();
        if n < k + 1 {
            continue;
        }
        for off in 0..=n - k - 1 {
            let w = &r.seq[off..off + k + 1];
            let a = canon(&w[..k], stranded);
            let b = canon(&w[1..], stranded);
            if retained(&a) && retained(&b) {
                out.insert(canon(w, stranded));
            }
        }
    }
    out
}

/// Model-side sharding of reads into pieces: the shard of a k-mer is a pure function of its canonical form,
/// pieces are maximal runs of consecutive k-mers of the same shard, with the true flanking bases as boundary
/// extensions (the read's own boundary extensions at the read ends).
pub fn shard_reads(reads: &[Read], k: usize, stranded: bool, nshards: usize, seed: u64) -> Vec<Vec<Read>> {
    let mut shards: Vec<Vec<Read>> = vec![Vec::new(); nshards.max(1)];
    let shard_of = |w: &[u8]| -> usize {
        let c = canon(w, stranded);
        (crate::util::fnv64(&[&c[..], &seed.to_le_bytes()[..]].concat()) % nshards.max(1) as u64) as usize
    };
    for r in reads {
        let n = r.seq.len();
        if n < k {
            continue;
        }
        let ids: Vec<usize> = (0..=n - k).map(|i| shard_of(&r.seq[i..i + k])).collect();
        let mut start = 0;
        while start < ids.len() {
            let mut end = start;
            while end + 1 < ids.len() && ids[end + 1] == ids[start] {
                end += 1;
            }
            // piece covers k-mers start..=end : bases start .. end+k
            let (a, b) = (start, end + k);
            let left = if a > 0 { 1u8 << r.seq[a - 1] } else { r.exts & 0xf };
            let right = if b < n { 1u8 << r.seq[b] } else { r.exts >> 4 };
            shards[ids[start]].push(Read {
                seq: r.seq[a..b].to_vec(),
                exts: left | (right << 4),
                label: r.label,
            });
            start = end + 1;
        }
    }
    shards
}
