pub mod findings;
pub mod gen;
pub mod ktypes;
pub mod model;
pub mod props;
pub mod runner;
pub mod util;
