//! Known-findings file (/verif/known_findings.json): read-only at run time.
//!
//! Format: {"findings": [ { "property": "C15", "status": "open"|"fixed", "commit": "...",
//!   "what": "...", "signature": { "job_prefix": "...", "message_contains": "...",
//!   "case_contains": <json subset, optional> } } ] }
//! An *open* entry turns a matching failure into a `KNOWN-FINDING:` line; a *fixed* entry
//! suppresses nothing.

use serde_json::Value;
use std::path::Path;

pub struct Findings {
    entries: Vec<Value>,
}

pub enum Match {
    Open(String),
    None,
}

fn json_subset(needle: &Value, hay: &Value) -> bool {
    match (needle, hay) {
        (Value::Object(n), Value::Object(h)) => n
            .iter()
            .all(|(k, v)| h.get(k).map(|hv| json_subset(v, hv)).unwrap_or(false)),
        (Value::Array(n), Value::Array(h)) => {
            n.len() == h.len() && n.iter().zip(h.iter()).all(|(a, b)| json_subset(a, b))
        }
        (a, b) => a == b,
    }
}

impl Findings {
    pub fn load(path: &Path) -> Findings {
        let entries = std::fs::read_to_string(path)
            .ok()
            .and_then(|t| serde_json::from_str::<Value>(&t).ok())
            .and_then(|v| v.get("findings").and_then(|f| f.as_array().cloned()))
            .unwrap_or_default();
        Findings { entries }
    }

    pub fn fixed_lines(&self, id: &str) -> Vec<String> {
        self.entries
            .iter()
            .filter(|e| e["property"] == id && e["status"] == "fixed")
            .map(|e| {
                format!(
                    "fixed: property={} {} {}",
                    id,
                    e["commit"].as_str().unwrap_or("?"),
                    e["what"].as_str().unwrap_or("")
                )
            })
            .collect()
    }

    pub fn matches(&self, id: &str, job: &str, message: &str, case: &Value) -> Match {
        for e in &self.entries {
            if e["property"] != id || e["status"] != "open" {
                continue;
            }
            let sig = &e["signature"];
            if let Some(p) = sig["job_prefix"].as_str() {
                if !job.starts_with(p) {
                    continue;
                }
            }
            if let Some(m) = sig["message_contains"].as_str() {
                if !message.contains(m) {
                    continue;
                }
            } else {
                // an open finding must pin the failing call site / message class
                continue;
            }
            if !sig["case_contains"].is_null() && !json_subset(&sig["case_contains"], case) {
                continue;
            }
            return Match::Open(e["what"].as_str().unwrap_or("").to_string());
        }
        Match::None
    }
}
