#![no_main]
use arbitrary::Unstructured;
use dbgv::ktypes::*;
use dbgv::pipeline::{ColPay, SumPay};
use debruijn::Kmer;
use libfuzzer_sys::fuzz_target;

fn go<K: Kmer + Send + Sync>(name: &str, u: &mut Unstructured) {
    if let Ok(mut c) = dbgv::fuzzing::gcase(u, K::k()) {
        dbgv::fuzzing::run_case("C01", &format!("lossless/{}/sum", name), &c, dbgv::props::c01::check::<K, SumPay>);
        // C02 and C03 are stated for whole read sets (no shard tables)
        c.shards = 0;
        dbgv::fuzzing::run_case("C02", &format!("maximal/{}/colour", name), &c, dbgv::props::c02::check::<K, ColPay>);
        dbgv::fuzzing::run_case("C03", &format!("edges/{}", name), &c, |c| {
            dbgv::props::c03::check::<K, SumPay>(c, &|d: &SumPay, s: u64| ((d.xh ^ s) >> 54) as f32)
        });
    }
}

fuzz_target!(|data: &[u8]| {
    if data.is_empty() {
        return;
    }
    let mut u = Unstructured::new(&data[1..]);
    match data[0] % 4 {
        0 => go::<Kmer4>("Kmer4", &mut u),
        1 => go::<Kmer5>("Kmer5", &mut u),
        2 => go::<Kmer6>("Kmer6", &mut u),
        _ => go::<Kmer8>("Kmer8", &mut u),
    }
});
