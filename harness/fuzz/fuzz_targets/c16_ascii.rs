#![no_main]
use arbitrary::Unstructured;
use libfuzzer_sys::fuzz_target;

fuzz_target!(|data: &[u8]| {
    // raw bytes straight into the ingestion paths (the vector path reads 32 bytes through a raw pointer: ASan matters here)
    let raw = dbgv::props::c16::Case {
        bytes: data.to_vec(),
        name: vec![b'r', b'1'],
        edits: vec![(0, b'N'), (40000, b'-')],
    };
    dbgv::fuzzing::run_case("C16", "bytes/0", &raw, dbgv::props::c16::check);
    // and with a decoded read name / edit list
    let mut u = Unstructured::new(data);
    if let Ok(c) = dbgv::fuzzing::c16_case(&mut u) {
        dbgv::fuzzing::run_case("C16", "bytes/0", &c, dbgv::props::c16::check);
    }
});
