#![no_main]
use arbitrary::Unstructured;
use libfuzzer_sys::fuzz_target;

fuzz_target!(|data: &[u8]| {
    if data.is_empty() {
        return;
    }
    let mut u = Unstructured::new(&data[1..]);
    if data[0] & 1 == 0 {
        if let Ok(c) = dbgv::fuzzing::c15_vcase(&mut u) {
            dbgv::fuzzing::run_case("C15", "views/0", &c, dbgv::props::c15::check_views);
        }
    } else if let Ok(c) = dbgv::fuzzing::c15_dcase(&mut u) {
        dbgv::fuzzing::run_case("C15", "distance/0", &c, dbgv::props::c15::check_dist);
    }
});
