#![no_main]
use arbitrary::Unstructured;
use dbgv::ktypes::*;
use debruijn::Kmer;
use libfuzzer_sys::fuzz_target;

fn go<K: Kmer + Send + Sync>(name: &str, u: &mut Unstructured) {
    if let Ok(c) = dbgv::fuzzing::c18_case(u) {
        dbgv::fuzzing::run_case("C18", &format!("calls/{}", name), &c, dbgv::props::c18::check::<K>);
    }
}

fuzz_target!(|data: &[u8]| {
    if data.is_empty() {
        return;
    }
    let mut u = Unstructured::new(&data[1..]);
    match data[0] % 5 {
        0 => go::<Kmer4>("Kmer4", &mut u),
        1 => go::<Kmer5>("Kmer5", &mut u),
        2 => go::<Kmer16>("Kmer16", &mut u),
        3 => go::<Kmer31>("Kmer31", &mut u),
        _ => go::<Kmer48>("Kmer48", &mut u),
    }
});
