#![no_main]
use arbitrary::Unstructured;
use libfuzzer_sys::fuzz_target;

fuzz_target!(|data: &[u8]| {
    if data.is_empty() {
        return;
    }
    let words = 1 + (data[0] % 6) as usize;
    let mut u = Unstructured::new(&data[1..]);
    if let Ok(c) = dbgv::fuzzing::c17_case(&mut u, words) {
        dbgv::fuzzing::run_case("C17", &format!("history/Lmer{}", words), &c, |c| dbgv::props::c17::check_history(words, c));
    }
});
