#![no_main]
use arbitrary::Unstructured;
use dbgv::ktypes::*;
use debruijn::Kmer;
use libfuzzer_sys::fuzz_target;

fn go<K: Kmer + Send + Sync>(name: &str, u: &mut Unstructured) {
    if let Ok(c) = dbgv::fuzzing::c13_case(u, K::k()) {
        dbgv::fuzzing::run_case("C13", &format!("extract/{}", name), &c, dbgv::props::c13::check::<K>);
    }
}

fuzz_target!(|data: &[u8]| {
    if data.is_empty() {
        return;
    }
    let mut u = Unstructured::new(&data[1..]);
    match data[0] % 12 {
        0 => go::<Kmer3>("Kmer3", &mut u),
        1 => go::<Kmer5>("Kmer5", &mut u),
        2 => go::<Kmer8>("Kmer8", &mut u),
        3 => go::<Kmer15>("Kmer15", &mut u),
        4 => go::<Kmer16>("Kmer16", &mut u),
        5 => go::<Kmer31>("Kmer31", &mut u),
        6 => go::<Kmer32>("Kmer32", &mut u),
        7 => go::<Kmer40>("Kmer40", &mut u),
        8 => go::<Kmer48>("Kmer48", &mut u),
        9 => go::<Kmer64>("Kmer64", &mut u),
        10 => go::<Kmer12w>("Kmer12w", &mut u),
        _ => go::<Kmer31w>("Kmer31w", &mut u),
    }
});
