#![no_main]
use arbitrary::Unstructured;
use dbgv::ktypes::*;
use debruijn::Kmer;
use libfuzzer_sys::fuzz_target;

fn go<P: Kmer + Send + Sync>(name: &str, u: &mut Unstructured) {
    if let Ok(c) = dbgv::fuzzing::c07_case(u, P::k()) {
        dbgv::fuzzing::run_case("C07", &format!("scan/{}", name), &c, dbgv::props::c07::check::<P>);
    }
}

fuzz_target!(|data: &[u8]| {
    if data.is_empty() {
        return;
    }
    let mut u = Unstructured::new(&data[1..]);
    match data[0] % 8 {
        0 => go::<Kmer2>("Kmer2", &mut u),
        1 => go::<Kmer3>("Kmer3", &mut u),
        2 => go::<Kmer4>("Kmer4", &mut u),
        3 => go::<Kmer5>("Kmer5", &mut u),
        4 => go::<Kmer6>("Kmer6", &mut u),
        5 => go::<Kmer8>("Kmer8", &mut u),
        6 => go::<Kmer16>("Kmer16", &mut u),
        _ => go::<Kmer32>("Kmer32", &mut u),
    }
});
