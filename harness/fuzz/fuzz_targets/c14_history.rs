#![no_main]
use arbitrary::Unstructured;
use libfuzzer_sys::fuzz_target;

fuzz_target!(|data: &[u8]| {
    let mut u = Unstructured::new(data);
    if let Ok(c) = dbgv::fuzzing::c14_case(&mut u) {
        dbgv::fuzzing::run_case("C14", "history/0", &c, dbgv::props::c14::check);
    }
});
