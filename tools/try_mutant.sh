#!/bin/bash
# try_mutant.sh <patch> <ID> [<ID>...] : apply patch to /repo, run quick checks, restore /repo.  Prints one line per check.
P="$(realpath "$1")"; shift
if ! git -C /repo diff --quiet; then echo "/repo has uncommitted changes; refusing"; exit 3; fi
if ! git -C /repo apply "$P"; then echo "patch does not apply: $P"; exit 3; fi
for id in "$@"; do
  out=$(VERIF_EVIDENCE_DIR=/verif/target/mutant-evidence /verif/run "$id" quick 2>&1); rc=$?
  n=$(echo "$out" | grep -c '^VIOLATION')
  echo "$(basename "$P" .patch) $id exit=$rc violations=$n $(echo "$out" | grep -m1 'BUILD-FAILED')"
done
git -C /repo checkout -- . 
# leave the harness binary built against the restored tree
( cd /verif/harness && CARGO_NET_OFFLINE=true cargo build --release --quiet >/dev/null 2>&1 )
