#!/bin/bash
# confirm_seeded.sh <lane> <ID> <variant> [<ID> <variant> ...]
# For each seeded change delivered under /tmp/seeded-out/<ID>/<variant>/ : in a scratch worktree of /repo HEAD
#  1. apply patch.diff, add demo.rs as tests/demo_seeded.rs
#  2. run the crate's own suite unedited (cargo test --offline --lib --doc) -> must pass
#  3. run the demo with the change -> must FAIL
#  4. revert the change, run the demo -> must PASS
# Results go to /verif/seeded/<ID>-<variant>/ (patch.diff, demo.rs, notes.md, confirm.log, meta.json is written by hand later).
LANE="$1"; shift
export CARGO_TARGET_DIR=/tmp/cf-target-$LANE
export CARGO_NET_OFFLINE=true
while [ $# -ge 2 ]; do
  ID="$1"; V="$2"; shift 2
  SRC=/tmp/seeded-out/$ID/$V
  OUT=/verif/seeded/$ID-$V
  WT=/tmp/cf-wt-$LANE
  mkdir -p "$OUT"
  cp "$SRC/patch.diff" "$SRC/demo.rs" "$OUT/" 2>/dev/null
  cp "$SRC/notes.md" "$OUT/notes.md" 2>/dev/null
  LOG="$OUT/confirm.log"
  : > "$LOG"
  git -C /repo worktree remove --force "$WT" >/dev/null 2>&1
  git -C /repo worktree add --detach "$WT" HEAD -q >>"$LOG" 2>&1
  cp /repo/Cargo.lock "$WT/"
  echo "base commit: $(git -C /repo rev-parse HEAD)" >>"$LOG"
  if ! git -C "$WT" apply "$OUT/patch.diff" >>"$LOG" 2>&1; then echo "RESULT $ID-$V patch-does-not-apply" | tee -a "$LOG"; git -C /repo worktree remove --force "$WT"; continue; fi
  mkdir -p "$WT/tests"; cp "$OUT/demo.rs" "$WT/tests/demo_seeded.rs"
  ( cd "$WT" && cargo test --offline --lib --no-fail-fast 2>&1 | grep -E "^test result|FAILED|failed|panicked|error(\[|:)" ) >>"$LOG" 2>&1
  ( cd "$WT" && cargo test --offline --doc 2>&1 | grep -E "^test result|FAILED|error(\[|:)" ) >>"$LOG" 2>&1
  SUITE=$(grep -c "^test result: ok" "$LOG")
  SUITEFAIL=$(grep -c "^test result: FAILED" "$LOG")
  echo "--- demo WITH change" >>"$LOG"
  ( cd "$WT" && cargo test --offline --test demo_seeded 2>&1 | grep -E "^test |^test result|panicked" | head -40 ) >>"$LOG" 2>&1
  WITH=$(sed -n '/--- demo WITH change/,$p' "$LOG" | grep -c "^test result: FAILED")
  git -C "$WT" apply -R "$OUT/patch.diff" >>"$LOG" 2>&1
  echo "--- demo WITHOUT change" >>"$LOG"
  ( cd "$WT" && cargo test --offline --test demo_seeded 2>&1 | grep -E "^test |^test result|panicked" | head -40 ) >>"$LOG" 2>&1
  WITHOUT=$(sed -n '/--- demo WITHOUT change/,$p' "$LOG" | grep -c "^test result: ok")
  echo "RESULT $ID-$V suite_ok_results=$SUITE suite_failed_results=$SUITEFAIL demo_fails_with_change=$WITH demo_passes_without=$WITHOUT" | tee -a "$LOG"
  git -C /repo worktree remove --force "$WT"
done
rm -rf "$CARGO_TARGET_DIR"
