#!/usr/bin/env python3
"""mkmutant.py <name> <file-relative-to-repo> <old> <new> [count]  -> writes /verif/mutants/<name>.patch
   The replacement is made on a temporary copy of the file (repo untouched)."""
import sys, subprocess, os, tempfile, shutil
name, rel, old, new = sys.argv[1:5]
nth = int(sys.argv[5]) if len(sys.argv) > 5 else 1
src = open(os.path.join('/repo', rel)).read()
assert old in src, "old text not found"
parts = src.split(old)
assert len(parts) > nth, "not enough occurrences"
mut = old.join(parts[:nth]) + new + old.join(parts[nth:])
d = tempfile.mkdtemp()
try:
    a = os.path.join(d, 'a', rel); b = os.path.join(d, 'b', rel)
    os.makedirs(os.path.dirname(a)); os.makedirs(os.path.dirname(b))
    open(a, 'w').write(src); open(b, 'w').write(mut)
    r = subprocess.run(['diff', '-u', '--label', 'a/' + rel, '--label', 'b/' + rel, a, b], capture_output=True, text=True)
    open(f'/verif/mutants/{name}.patch', 'w').write(r.stdout)
    print('wrote', f'/verif/mutants/{name}.patch', len(r.stdout.splitlines()), 'lines')
finally:
    shutil.rmtree(d)
