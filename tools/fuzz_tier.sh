#!/bin/bash
# fuzz_tier.sh <ID> <stats-out.json> : coverage-guided campaign (libFuzzer + ASan) for one property, pinned by VERIF_SEED.
# Exit 0 always unless the targets cannot be built (exit 2); violations are reported through the stats file,
# which the check binary embeds into the evidence (and turns into VIOLATION lines).
ID="$1"; OUT="$2"
ROOT="$(cd "$(dirname "$0")/.." && pwd)"
case "$ID" in
  C01|C02|C03) T=c01_pipeline; MAXLEN=600;;
  C11) T=c11_history; MAXLEN=2500;;
  C14) T=c14_history; MAXLEN=1500;;
  C15) T=c15_views; MAXLEN=600;;
  C16) T=c16_ascii; MAXLEN=300;;
  C18) T=c18_calls; MAXLEN=120;;
  C07) T=c07_scan; MAXLEN=800;;
  C13) T=c13_extract; MAXLEN=500;;
  C17) T=c17_history; MAXLEN=700;;
  *) echo '{"target": null}' > "$OUT"; exit 0;;
esac
SEED="${VERIF_SEED:-20260926}"
RUNS="${VERIF_FUZZ_RUNS:-300000}"
case "$T" in c13_extract|c17_history) RUNS=$((RUNS / 3));; c15_views) RUNS=$((RUNS / 5));; esac   # slower per execution (many container x k-mer-width checks per case)
PROCS="${VERIF_FUZZ_PROCS:-8}"
export CARGO_NET_OFFLINE=true
cd "$ROOT/harness" || exit 2
LOG="$ROOT/target/fuzz-build.$$.log"
if ! cargo +nightly fuzz build "$T" >"$LOG" 2>&1; then
  echo "BUILD-FAILED (fuzz target $T)"; tail -20 "$LOG"; rm -f "$LOG"; exit 2
fi
rm -f "$LOG"
BIN="$ROOT/target/x86_64-unknown-linux-gnu/release/$T"
WORK="$ROOT/target/fuzz-work/$T.$$"
REPLAYS="$ROOT/replays/$ID/fuzz"
rm -rf "$WORK" "$REPLAYS"; mkdir -p "$WORK" "$REPLAYS"
export VERIF_FUZZ_REPLAY_DIR="$REPLAYS" VERIF_FUZZ_ONLY="$ID"
pids=()
for i in $(seq 1 "$PROCS"); do
  C="$WORK/corpus$i"; mkdir -p "$C" "$WORK/art$i"
  # starting corpus: deterministic pseudo-random files of assorted lengths (libFuzzer ramps length slowly from an empty corpus)
  python3 - "$C" "$SEED" "$i" "$MAXLEN" <<'PY'
import sys, random
d, seed, i, maxlen = sys.argv[1], int(sys.argv[2]), int(sys.argv[3]), int(sys.argv[4])
r = random.Random(seed * 1000 + i)
for j in range(24):
    n = r.choice([8, 16, 33, 64, 100, 200, maxlen // 2, maxlen])
    alpha = r.choice([256, 4, 2, 16])
    open(f"{d}/seed{j}", "wb").write(bytes(r.randrange(alpha) for _ in range(n)))
PY
  # committed seeds (golden inputs), if any
  cp "$ROOT"/harness/fuzz/seeds/$T/* "$C"/ 2>/dev/null
  "$BIN" "$C" -runs="$RUNS" -seed=$((SEED % 2000000000 + i)) -len_control=0 -max_len="$MAXLEN" -artifact_prefix="$WORK/art$i/" -print_final_stats=1 >"$WORK/log$i" 2>&1 &
  pids+=($!)
done
crashed=0
for p in "${pids[@]}"; do wait "$p" || crashed=$((crashed+1)); done
python3 - "$WORK" "$REPLAYS" "$T" "$PROCS" "$RUNS" "$SEED" "$crashed" "$OUT" "$ID" <<'PY'
import sys, glob, json, re, os
work, replays, target, procs, runs, seed, crashed, out, pid = sys.argv[1:10]
execs = 0; cov = 0
for f in glob.glob(work + "/log*"):
    t = open(f, errors="replace").read()
    m = re.search(r"stat::number_of_executed_units:\s*(\d+)", t)
    if m: execs += int(m.group(1))
    for c in re.findall(r"cov: (\d+)", t): cov = max(cov, int(c))
viol = []
for f in sorted(glob.glob(replays + "/*.json")):
    try:
        j = json.load(open(f))
    except Exception:
        continue
    viol.append({"property": j.get("property"), "replay": f, "message": j.get("message", "")[:300]})
other = []
if int(crashed) > 0 and not viol:
    # a crash without a semantic replay: sanitizer report / abort inside the code under test; keep the raw artifact
    arts = glob.glob(work + "/art*/*")
    keep = os.path.join(replays, "raw-artifacts"); os.makedirs(keep, exist_ok=True)
    for a in arts[:5]:
        dst = os.path.join(keep, os.path.basename(a)); open(dst, "wb").write(open(a, "rb").read()); other.append(dst)
    tail = ""
    for f in glob.glob(work + "/log*"):
        t = open(f, errors="replace").read()
        if "ERROR" in t or "SUMMARY" in t: tail = t[-1500:]; break
    if other:
        viol.append({"property": pid, "replay": other[0], "message": "libFuzzer process crashed without a semantic replay (sanitizer report or abort): " + tail[-600:]})
json.dump({"target": target, "engine": "libFuzzer (cargo-fuzz, ASan, debug assertions)", "processes": int(procs), "runs_per_process": int(runs),
           "seed": int(seed), "executions": execs, "max_edge_coverage_counter": cov, "processes_crashed": int(crashed), "violations": viol}, open(out, "w"), indent=1)
PY
rm -rf "$WORK"
exit 0
