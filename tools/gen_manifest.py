#!/usr/bin/env python3
"""Regenerate /verif/MANIFEST.json from the table below (keeps the manifest valid at all times)."""
import json, subprocess, os

ROOT = os.path.dirname(os.path.dirname(os.path.abspath(__file__)))

# id -> (technique, level text, level note, design section)
CLAIMED = {
    "C07": (
        "seeded proptest, validity-predicate oracle over plain strings",
        "Generated search (sequences x k x p-mer type x score function x container) against an interval validity predicate "
        "written on plain strings: tiling with k-1 overlap, length bounds, minimizer text/position/minimality, maximal extension. "
        "Exploration is the right level: the property quantifies over all inputs and score functions and admits many correct outputs under ties.",
        "Trusted: proptest's generators/shrinker, the harness's string predicate (harness/src/props/c07.rs::validate). p-mer values are read through Mer::get.",
        "DESIGN.md section 6, C07",
    ),
    "C10": (
        "exhaustive enumeration for K<=8 plus seeded proptest for K>8 against a Vec<u8> string model",
        "Every k-mer operation is compared with the same operation on a plain K-letter Vec<u8>; all 4^K values x all positions x all bases x all (pos,run) pairs "
        "for the seven types with K<=8 (exhaustive), boundary-biased generated values for the 13 larger types.",
        "Trusted: the string model (harness/src/props/c10.rs). For K>8 the value space is sampled, not enumerated.",
        "DESIGN.md section 6, C10",
    ),
}

NOT_YET = "check not built yet in this revision of /verif (work in progress; see DESIGN.md section 6 for the planned check)"


def main():
    ids = [json.loads(l)["id"] for l in open(os.path.join(ROOT, "properties.jsonl"))]
    hooks = subprocess.run(
        ["git", "-C", "/repo", "log", "--format=%H %s", "--grep=verif_hooks"],
        capture_output=True, text=True).stdout.strip().splitlines()
    hook_commits = [l.split()[0] for l in hooks]
    checks = []
    for i in ids:
        if i not in CLAIMED:
            continue
        tech, text, note, ref = CLAIMED[i]
        checks.append({
            "property_id": i,
            "quick_cmd": f"./run {i} quick",
            "thorough_cmd": f"./run {i} thorough",
            "evidence_file": f"/verif/evidence/{i}.json",
            "replay_cmd_template": f"./run {i} --replay {{path}}",
            "engine": "dbgv",
            "level_claimed": {"category": "exploration", "text": text, "design_ref": ref},
            "level_note": note,
            "technique": tech,
        })
    manifest = {
        "version": 1,
        "setup_cmd": "cd /verif/harness && CARGO_NET_OFFLINE=true cargo build --release",
        "hooks": {
            "guard": "cargo feature verif_hooks (crate debruijn)",
            "enable": "harness/Cargo.toml depends on debruijn = { path = \"/repo\", features = [\"verif_hooks\"] }; every ./run rebuilds against /repo's working tree",
            "baseline_off_cmd": "cd /repo && cargo test --workspace --no-fail-fast --offline",
            "source_commits": hook_commits,
            "add_only": True,
        },
        "engines": [
            {
                "name": "dbgv",
                "path": "/verif/harness",
                "serves_properties": [c["property_id"] for c in checks],
                "kind_free_text": "Rust crate: seeded proptest TestRunner (fixed RNG seed from VERIF_SEED, shrinking, no persistence) plus exhaustive enumeration jobs, "
                                  "independent Vec<u8> reference models, JSON replay files, evidence writer; jobs run on 16 threads",
            },
        ],
        "checks": checks,
        "not_applicable": [{"property_id": i, "reason": NOT_YET} for i in ids if i not in CLAIMED],
        "notes": "All checks: exit 0 = held on everything explored, exit 1 + 'VIOLATION property=<id> replay=<path>' = violation, exit 2 = inconclusive (build failure, watchdog). "
                 "VERIF_SEED selects the seed; replay files are JSON and are re-executed without proptest by ./run <ID> --replay <file>. "
                 "Known findings: /verif/known_findings.json (read-only at run time).",
    }
    with open(os.path.join(ROOT, "MANIFEST.json"), "w") as f:
        json.dump(manifest, f, indent=1)
        f.write("\n")


if __name__ == "__main__":
    main()
