#!/usr/bin/env python3
"""Regenerate /verif/MANIFEST.json from the table below (keeps the manifest valid at all times)."""
import json, subprocess, os

ROOT = os.path.dirname(os.path.dirname(os.path.abspath(__file__)))

# id -> (technique, level text, level note, design section)
CLAIMED = {
    "C01": (
        "seeded proptest over read sets x configurations against a string-level k-mer table model",
        "Generated search over read sets (repeats, palindromes, hairpins, tandem repeats, homopolymers), all 18 k-mer types with K>=4, both strandedness modes, thresholds, the three construction entry points and shard tables; "
        "oracle is an independent string-level table: partition (each key exactly once, nothing foreign), step validity on both k-mers, payload = fold over exactly the node's k-mers (commutative (count,xor-hash,n) payload makes a lost/duplicated k-mer visible).",
        "Trusted: harness/src/model (table construction), pipeline::check_lossless. Sizes are bounded (<= 24 reads of <= ~6K+40 bases).",
        "DESIGN.md section 6, C01",
    ),
    "C02": (
        "seeded proptest; independent union-find over compressible links of the string-level bidirected k-mer graph",
        "The node partition must EQUAL the connected components of compressible links computed by an independent union-find (both directions: no under-merging, no over-merging); always-true and colour-equality join predicates; crate's is_compressed never consulted.",
        "Trusted: model::expected_partition (definition of a compressible link), model::prune_exts. Tables are read-derived, hence consistent.",
        "DESIGN.md section 6, C02",
    ),
    "C03": (
        "seeded proptest over graphs x probes against a string-level adjacency model",
        "Every node x side x base is resolved through find_link/edges and compared with the set of acceptable answers derived from node sequences; (K+1)-mer set equality with the reads; symmetry; bit-exact pruning (k-mer level, sharded and unsharded, and node level under random bitsets); walks, max_path and max_path_beam spelled against the model.",
        "Trusted: gmodel::GModel (acceptable-answer sets, spelling), model::neighbour. max_path_beam is only required to return a valid walk (it may end on a repeated node by design).",
        "DESIGN.md section 6, C03",
    ),
    "C04": (
        "seeded proptest, differential sharded vs one-pass assembly anchored to a string-level model",
        "The crate's own sharded pipeline (msp_sequence -> per-shard filter_kmers -> compress_kmers_with_hash -> combine -> finish -> compress_graph) is run for 25 (K,P) pairs, default and generated permutations, both strandedness values, thresholds, two payload kinds and five piece containers, and compared with the one-pass pipeline and with the reference partition/payload/adjacency model in a cut- and orientation-invariant way.",
        "Trusted: model::expected_partition, pipeline::parts_with_data (canonical k-mer sets + payload), gmodel::table_w.",
        "DESIGN.md section 6, C04",
    ),
    "C08": (
        "seeded proptest; functional-dependency check k-mer -> bucket, substring/flank equality",
        "For every read set (reads and their reverse complements), P in 2..8, k>p, default and generated permutations, rc mode on/off and five piece containers: pieces re-tile the read exactly, carry the true flanking bases, and the map k-mer -> bucket over all occurrences (both orientations in rc mode) is a function; the bucket's p-mer lies in every k-mer of its piece.",
        "Trusted: plain-string tiling/flank computation in props/c08.rs. Permutation tables are real Fisher-Yates permutations derived from a generated seed.",
        "DESIGN.md section 6, C08",
    ),
    "C05": (
        "seeded proptest against a string-level grouping model; pass count forced through the verif_hooks feature",
        "Generated read sets with labels and arbitrary boundary extensions, five read containers, both strandedness values, report_all on/off, CountFilter/CountFilterSet for n from 0 to above the maximum count plus a recording summarizer that exposes grouping order; the memory-unit hook makes 1..256 bucket passes happen on small inputs and the pass counter proves it. Result map (iteration and get, present and absent k-mers), all_kmers and summaries are compared with the model for every pass count.",
        "Trusted: model::build_table; the add-only hook (thread-local override of the bytes-per-unit constant and a pass counter). Count saturation (>65535 observations) has a dedicated job.",
        "DESIGN.md section 6, C05",
    ),
    "C06": (
        "seeded proptest, metamorphic relation (reverse-complement any subset of reads) + stranded string model",
        "Unstranded: table and graph (partition, payloads, adjacency set) are invariant under reverse-complementing any generated subset of reads, for four pipeline variants, and every key is the string minimum of the two strands. Stranded: table keys and graph adjacencies equal the forward-strand model exactly and no edge reports a flip.",
        "Trusted: the metamorphic relation itself needs no model; the stranded half uses model::build_table / read_kp1s. The 2^n subsets are sampled (32-bit mask).",
        "DESIGN.md section 6, C06",
    ),
    "C09": (
        "seeded proptest with a constructive graph splitter; union-find partition model; metamorphic idempotence",
        "Input graphs: compressed, one-k-mer-per-node, randomly cut/re-oriented/shuffled valid partial compressions, combine of sharded sub-assemblies, colour-compressed graphs; censor lists None/empty/subset(unsorted, duplicates)/all. Result must be exactly the maximal unbranched paths of the surviving adjacencies with folded payloads, all extensions resolving, adjacency set exact; re-compression is idempotent.",
        "Trusted: model::expected_partition, the splitter (props/c09.rs::split_nodes) producing only valid graphs (each sub-node is a run of consecutive k-mers of a compressed node).",
        "DESIGN.md section 6, C09",
    ),
    "C07": (
        "seeded proptest, validity-predicate oracle over plain strings",
        "Generated search (sequences x k x p-mer type x score function x container) against an interval validity predicate "
        "written on plain strings: tiling with k-1 overlap, length bounds, minimizer text/position/minimality, maximal extension. "
        "Exploration is the right level: the property quantifies over all inputs and score functions and admits many correct outputs under ties.",
        "Trusted: proptest's generators/shrinker, the harness's string predicate (harness/src/props/c07.rs::validate). p-mer values are read through Mer::get.",
        "DESIGN.md section 6, C07",
    ),
    "C10": (
        "exhaustive enumeration for K<=8 plus seeded proptest for K>8 against a Vec<u8> string model",
        "Every k-mer operation is compared with the same operation on a plain K-letter Vec<u8>; all 4^K values x all positions x all bases x all (pos,run) pairs "
        "for the seven types with K<=8 (exhaustive), boundary-biased generated values for the 13 larger types.",
        "Trusted: the string model (harness/src/props/c10.rs). For K>8 the value space is sampled, not enumerated.",
        "DESIGN.md section 6, C10",
    ),
}

NOT_YET = "check not built yet in this revision of /verif (work in progress; see DESIGN.md section 6 for the planned check)"


def main():
    ids = [json.loads(l)["id"] for l in open(os.path.join(ROOT, "properties.jsonl"))]
    hooks = subprocess.run(
        ["git", "-C", "/repo", "log", "--format=%H %s", "--grep=verif_hooks"],
        capture_output=True, text=True).stdout.strip().splitlines()
    hook_commits = [l.split()[0] for l in hooks]
    checks = []
    for i in ids:
        if i not in CLAIMED:
            continue
        tech, text, note, ref = CLAIMED[i]
        checks.append({
            "property_id": i,
            "quick_cmd": f"./run {i} quick",
            "thorough_cmd": f"./run {i} thorough",
            "evidence_file": f"/verif/evidence/{i}.json",
            "replay_cmd_template": f"./run {i} --replay {{path}}",
            "engine": "dbgv",
            "level_claimed": {"category": "exploration", "text": text, "design_ref": ref},
            "level_note": note,
            "technique": tech,
        })
    manifest = {
        "version": 1,
        "setup_cmd": "cd /verif/harness && CARGO_NET_OFFLINE=true cargo build --release",
        "hooks": {
            "guard": "cargo feature verif_hooks (crate debruijn)",
            "enable": "harness/Cargo.toml depends on debruijn = { path = \"/repo\", features = [\"verif_hooks\"] }; every ./run rebuilds against /repo's working tree",
            "baseline_off_cmd": "cd /repo && cargo test --workspace --no-fail-fast --offline",
            "source_commits": hook_commits,
            "add_only": True,
        },
        "engines": [
            {
                "name": "dbgv",
                "path": "/verif/harness",
                "serves_properties": [c["property_id"] for c in checks],
                "kind_free_text": "Rust crate: seeded proptest TestRunner (fixed RNG seed from VERIF_SEED, shrinking, no persistence) plus exhaustive enumeration jobs, "
                                  "independent Vec<u8> reference models, JSON replay files, evidence writer; jobs run on 16 threads",
            },
        ],
        "checks": checks,
        "not_applicable": [{"property_id": i, "reason": NOT_YET} for i in ids if i not in CLAIMED],
        "notes": "All checks: exit 0 = held on everything explored, exit 1 + 'VIOLATION property=<id> replay=<path>' = violation, exit 2 = inconclusive (build failure, watchdog). "
                 "VERIF_SEED selects the seed; replay files are JSON and are re-executed without proptest by ./run <ID> --replay <file>. "
                 "Known findings: /verif/known_findings.json (read-only at run time).",
    }
    with open(os.path.join(ROOT, "MANIFEST.json"), "w") as f:
        json.dump(manifest, f, indent=1)
        f.write("\n")


if __name__ == "__main__":
    main()
