#!/bin/bash
# run_some.sh <quick|thorough> <ID>... : run the listed checks in turn; summary lines only
TIER="$1"; shift
cd "$(dirname "$0")/.."
fail=0
for id in "$@"; do
  out=$(./run $id $TIER 2>&1); rc=$?
  echo "$out" | grep -E "^property=|^VIOLATION|^KNOWN-FINDING|^INCONCLUSIVE|BUILD-FAILED|HARNESS"
  if [ $rc -ne 0 ]; then fail=1; echo "  -> $id exit $rc"; fi
done
exit $fail
