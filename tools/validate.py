#!/usr/bin/env python3-vt
import json,sys,glob,jsonschema
es=json.load(open('/root/.vp/EVIDENCE.schema.json'))
ms=json.load(open('/root/.vp/MANIFEST.schema.json'))
m=json.load(open('/verif/MANIFEST.json')); jsonschema.validate(m,ms); print('MANIFEST valid;',len(m['checks']),'checks')
for f in sorted(glob.glob('/verif/evidence/*.json')):
    e=json.load(open(f)); jsonschema.validate(e,es); print(f,'valid',e['tier'],e['coverage']['evaluations'],e['coverage']['distinct_nontrivial'])
