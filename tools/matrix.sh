#!/bin/bash
# matrix.sh <lane> <listfile> <outfile> : independent sensitivity pipeline that does not touch /repo's working tree.
# listfile lines: <patch path> <ID> [<ID> ...]   -> appends "<patch> <ID> exit=<rc> violations=<n> wall=<s>" to outfile
LANE="$1"; LIST="$2"; OUT="$3"
MX=/tmp/mx-$LANE
rm -rf "$MX"; mkdir -p "$MX/root"
git -C /repo worktree remove --force "$MX/repo" >/dev/null 2>&1
git -C /repo worktree add --detach "$MX/repo" HEAD -q || exit 3
cp /repo/Cargo.lock "$MX/repo/"
rsync -a --exclude target /verif/harness/ "$MX/harness/"
sed -i "s|path = \"/repo\"|path = \"$MX/repo\"|" "$MX/harness/Cargo.toml"
sed -i "s|target-dir = .*|target-dir = \"$MX/target\"|" "$MX/harness/.cargo/config.toml"
ln -s /verif/corpus "$MX/root/corpus"
cp /verif/known_findings.json "$MX/root/"
export CARGO_NET_OFFLINE=true VERIF_ROOT="$MX/root"
while read -r P IDS; do
  [ -z "$P" ] && continue
  case "$P" in \#*) continue;; esac
  if [ "$P" != "none" ]; then
    if ! git -C "$MX/repo" apply "$P" 2>/dev/null; then echo "$P - patch-does-not-apply" >> "$OUT"; continue; fi
  fi
  if ! ( cd "$MX/harness" && cargo build --release --quiet >"$MX/build.log" 2>&1 ); then
     echo "$P - build-failed" >> "$OUT"
  else
     for ID in $IDS; do
        t0=$(date +%s)
        out=$("$MX/target/release/check" "$ID" quick 2>&1); rc=$?
        n=$(echo "$out" | grep -c '^VIOLATION')
        first=$(echo "$out" | grep -m1 'failed:' | cut -c1-200)
        echo "$P $ID exit=$rc violations=$n wall=$(( $(date +%s) - t0 )) $first" >> "$OUT"
        if [ -n "$HARVEST" ] && [ $rc -eq 1 ]; then
           # keep the smallest shrunk replay as a regression case: corpus/<ID>/<HARVEST>-<name>.json
           name=$(echo "$P" | sed 's|/patch.diff||; s|.*/seeded-out/||; s|.*/seeded/||; s|.*/mutants/||; s|\.patch$||; s|/|-|g')
           f=$(ls -S -r "$MX/root/replays/$ID"/*.json 2>/dev/null | head -1)
           if [ -n "$f" ]; then mkdir -p "/verif/corpus/$ID"; sed "s|$MX/repo|/repo|g" "$f" > "/verif/corpus/$ID/$HARVEST-$name.json"; fi
        fi
     done
  fi
  git -C "$MX/repo" checkout -- . 
done < "$LIST"
git -C /repo worktree remove --force "$MX/repo"
rm -rf "$MX"
echo "DONE" >> "$OUT"
