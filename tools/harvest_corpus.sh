#!/bin/bash
# harvest_corpus.sh <patch> <ID> <name> <n> : apply a (revert-fix) patch, run the quick check at small scale, keep the n smallest
# shrunk replays as corpus/<ID>/<name>-<i>.json, restore /repo.
P="$(realpath "$1")"; ID="$2"; NAME="$3"; N="${4:-2}"
if ! git -C /repo diff --quiet; then echo "/repo dirty"; exit 3; fi
git -C /repo apply "$P" || exit 3
VERIF_EVIDENCE_DIR=/verif/target/mutant-evidence VERIF_SCALE=0.05 /verif/run "$ID" quick >/dev/null 2>&1
mkdir -p /verif/corpus/$ID
i=0
for f in $(ls -S -r /verif/replays/$ID/*.json 2>/dev/null | head -$N); do
  cp "$f" /verif/corpus/$ID/$NAME-$i.json; i=$((i+1))
done
echo "$NAME: kept $i replay(s)"
git -C /repo checkout -- .
( cd /verif/harness && CARGO_NET_OFFLINE=true cargo build --release --quiet >/dev/null 2>&1 )
