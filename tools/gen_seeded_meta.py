#!/usr/bin/env python3
"""Write /verif/seeded/<id>-<v>/meta.json from notes.md, confirm.log and the detection matrices."""
import json, os, re, glob
ROOT='/verif/seeded'
det={}
for f in glob.glob(ROOT+'/matrix-*.txt'):
    for l in open(f):
        p=l.split()
        if len(p)<4 or not p[2].startswith('exit='): continue
        det.setdefault(p[0],{})[p[1]]={'exit':int(p[2].split('=')[1]),'violation_lines':int(p[3].split('=')[1])}
extra=json.load(open(ROOT+'/notes-extra.json')) if os.path.exists(ROOT+'/notes-extra.json') else {}
for d in sorted(glob.glob(ROOT+'/C*-*')):
    name=os.path.basename(d); prop,var=name.split('-')
    notes=open(d+'/notes.md').read() if os.path.exists(d+'/notes.md') else ''
    title=notes.strip().splitlines()[0].lstrip('# ').strip() if notes.strip() else name
    # section about what is needed to manifest
    needs=''
    m=re.search(r'^#+[^\n]*(manifest|[Tt]rigger)[^\n]*\n(.*?)(?=^#+ |\Z)', notes, re.S|re.M)
    if m: needs=m.group(2).strip()
    else:
        m=re.search(r'\*\*[^\n]*(manifest|[Tt]rigger)[^\n]*\*\*[:\s]*(.*?)(?=\n\*\*|\n#|\Z)', notes, re.S)
        if m: needs=m.group(2).strip()
    log=open(d+'/confirm.log').read() if os.path.exists(d+'/confirm.log') else ''
    r=re.search(r'RESULT \S+ suite_ok_results=(\d+) suite_failed_results=(\d+) demo_fails_with_change=(\d+) demo_passes_without=(\d+)', log)
    base=re.search(r'base commit: (\w+)', log)
    confirmed=bool(r and r.group(1)=='2' and r.group(2)=='0' and r.group(3)=='1' and r.group(4)=='1')
    meta={
      'property_broken': prop,
      'variant': var,
      'title': title,
      'needs_to_manifest': needs[:3000] if needs else 'see notes.md',
      'files': {'patch':'patch.diff','demonstration':'demo.rs (integration test: passes on the unchanged tree, fails with the change)','author_notes':'notes.md','confirmation_log':'confirm.log'},
      'origin': 'fresh sub-agent given only the property text and its own scratch worktree; nothing from /verif',
      'confirmed_by_me': {
          'base_commit': base.group(1) if base else None,
          'what_ran': 'tools/confirm_seeded.sh in a scratch worktree of /repo HEAD (removed afterwards): git apply patch.diff; cargo test --offline --lib --no-fail-fast and --doc (unedited suite); demo.rs as tests/demo_seeded.rs with the change (must fail) and after git apply -R (must pass)',
          'compiles_and_existing_suite_passes_with_change': bool(r and r.group(1)=='2' and r.group(2)=='0'),
          'demo_fails_with_change': bool(r and r.group(3)=='1'),
          'demo_passes_without_change': bool(r and r.group(4)=='1'),
          'all_confirmed': confirmed,
      },
      'detection': {
          'how': 'patch applied to a scratch worktree (tools/matrix.sh) or to /repo and reverted straight afterwards (tools/try_mutant.sh); quick tier of the listed checks, default seed',
          'checks': det.get(name,{}),
          'detected_by_own_property_check': det.get(name,{}).get(prop,{}).get('exit')==1,
      },
    }
    if name in extra: meta['remarks']=extra[name]
    json.dump(meta,open(d+'/meta.json','w'),indent=1)
    print(name, 'confirmed' if confirmed else 'NOT-CONFIRMED', 'detected' if meta['detection']['detected_by_own_property_check'] else 'not-detected', len(needs))
