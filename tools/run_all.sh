#!/bin/bash
# run_all.sh [quick|thorough] : run every registered check in turn; summary at the end
TIER="${1:-quick}"
cd "$(dirname "$0")/.."
fail=0
for id in $(python3 -c "import json;print(' '.join(c['property_id'] for c in json.load(open('MANIFEST.json'))['checks']))"); do
  out=$(./run $id $TIER 2>&1); rc=$?
  echo "$out" | grep -E "^property=|^VIOLATION|^KNOWN-FINDING|^INCONCLUSIVE|BUILD-FAILED|HARNESS"
  if [ $rc -ne 0 ]; then fail=1; echo "  -> $id exit $rc"; fi
done
exit $fail
